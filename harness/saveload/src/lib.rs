//! C14: save / load round trip through specs' `SerializeComponents` / `DeserializeComponents`.
//!
//! Source world: three live entities (generations 3, 5, 7); a subset (concrete per variant) is
//! marked with pairwise distinct marker ids (arbitrary `u8`); component `CV(u8)` (plain value, converted by
//! the blanket `ConvertSaveload` impl) on an arbitrary subset with arbitrary values; component
//! `CR { target: Entity, tag: u8 }` (derived `ConvertSaveload`, entity field) on an arbitrary
//! subset, each referring to a MARKED entity (itself, an earlier or a later one in the data: the
//! reference pattern and the set of marked entities are concrete per query variant). The world is serialised with the real `SerializeComponents::serialize`
//! into an in-memory token stream (`format.rs`) and deserialised with the real
//! `DeserializeComponents::deserialize` into an EMPTY second world.
//!
//! Checked: exactly one entity per marked source entity and none for the unmarked ones; each
//! carries the same marker, an equal `CV` iff the source had one, a `CR` iff the source had one,
//! whose target is the loaded entity carrying the marker of the source's target (forward
//! references included), and the same tag.
//!
//! The marker type and its allocator are harness-defined (`Mk`, `MkAlloc`: an association list).
//! specs' own `SimpleMarker` / `SimpleMarkerAllocator` keep their id map in a std `HashMap`
//! (SipHash keys from the OS, hashbrown SIMD probing), which CBMC cannot execute: they are
//! outside this claim, as is the recursive serialiser and text formats.
#![allow(clippy::needless_range_loop)]

use serde::{Deserialize, Serialize};
use specs::prelude::*;
use specs::saveload::{ConvertSaveload, DeserializeComponents, Marker, MarkerAllocator, SerializeComponents};
use specs::world::{EntitiesRes, Index, VerifSlot};
use specs::{Component, ConvertSaveload};
use std::convert::Infallible;
use std::mem::forget;
use vsupport::{harness, nd, witness};

pub mod format;
use format::{Buf, De, Ser};

pub const NI: usize = 3;
pub const IDS: [Index; NI] = [0, 1, 2];

// ---------------------------------------------------------------- marker
#[derive(Clone, Copy, Debug, PartialEq, Eq, Hash, Serialize, Deserialize)]
pub struct Mk(pub u8);
impl Component for Mk {
    type Storage = VecStorage<Self>;
}
/// Association list marker id -> entity.
pub struct MkAlloc {
    pub n: usize,
    pub ids: [u8; 4],
    pub ents: [Entity; 4],
}
impl Default for MkAlloc {
    fn default() -> Self {
        MkAlloc { n: 0, ids: [0; 4], ents: [Entity::verif_new(0, 1); 4] }
    }
}
impl MarkerAllocator<Mk> for MkAlloc {
    fn allocate(&mut self, entity: Entity, id: Option<u8>) -> Mk {
        let id = id.unwrap_or(200 + self.n as u8);
        assert!(self.n < 4, "model capacity: marker allocator holds 4 markers");
        self.ids[self.n] = id;
        self.ents[self.n] = entity;
        self.n += 1;
        Mk(id)
    }
    fn retrieve_entity_internal(&self, id: u8) -> Option<Entity> {
        let mut r = None;
        for k in 0..4 {
            if k < self.n && self.ids[k] == id {
                r = Some(self.ents[k]);
            }
        }
        r
    }
    fn maintain(&mut self, _: &EntitiesRes, _: &ReadStorage<Mk>) {}
}
impl Marker for Mk {
    type Allocator = MkAlloc;
    type Identifier = u8;
    fn id(&self) -> u8 {
        self.0
    }
}

// ---------------------------------------------------------------- components
#[derive(Clone, Debug, PartialEq, Eq, Serialize, Deserialize)]
pub struct CV(pub u8);
impl Component for CV {
    type Storage = VecStorage<Self>;
}
#[derive(Clone, Debug, PartialEq, Eq, ConvertSaveload)]
pub struct CR {
    pub target: Entity,
    pub tag: u8,
}
impl Component for CR {
    type Storage = VecStorage<Self>;
}

fn new_world() -> World {
    let mut w = World::new();
    w.register::<Mk>();
    w.register::<CV>();
    w.register::<CR>();
    w
}

/// The round trip. `refs[i]` = which source entity `i`'s `CR` points at (concrete per variant:
/// it decides the order in which the loader meets markers); everything else is symbolic.
pub fn round_trip(refs: [usize; NI], mk: [bool; NI], cvm: [bool; NI], crm: [bool; NI]) {
    // ---------------- source world
    let mut w1 = new_world();
    let mut slots = [VerifSlot { id: 0, gen: 0, alive: false, raised: false, killed: false }; NI];
    let mut es = [Entity::verif_new(0, 1); NI];
    for i in 0..NI {
        // constant generations (3, 5, 7): with symbolic ones `is_alive` branches on a symbolic sign
        // in every storage access and the query does not finish (measured on the world harnesses)
        let g = 3 + 2 * i as i32;
        slots[i] = VerifSlot { id: IDS[i], gen: g, alive: true, raised: false, killed: false };
        es[i] = Entity::verif_new(IDS[i], g);
    }
    w1.write_resource::<EntitiesRes>().verif_assign_parts(NI + 1, NI + 1, &slots, &[], 0, 0, NI);
    let mut marked = [false; NI];
    let mut mid = [0u8; NI];
    let mut cv: [Option<u8>; NI] = [None; NI];
    let mut cr: [Option<u8>; NI] = [None; NI];
    {
        let mut sm = w1.write_storage::<Mk>();
        let mut sv = w1.write_storage::<CV>();
        let mut sr = w1.write_storage::<CR>();
        for i in 0..NI {
            // which entities are marked is concrete per variant (the join over the marker storage
            // drives the serialiser; a symbolic mask makes every index downstream symbolic)
            marked[i] = mk[i];
            // marker ids are constants: the loader looks entities up BY marker id, and a symbolic
            // id makes every such lookup (hence every later creation) undecided for the symbolic
            // executor
            mid[i] = 10 * (i as u8 + 1) + 3;
            if marked[i] {
                let r = sm.insert(es[i], Mk(mid[i]));
                assert!(r.is_ok());
                forget(r);
            }
            // which components exist is concrete per variant too (it decides the token positions
            // in the data); the VALUES are symbolic
            if cvm[i] {
                let v = nd::u8();
                let r = sv.insert(es[i], CV(v));
                assert!(r.is_ok());
                forget(r);
                cv[i] = Some(v);
            }
        }
        // distinct marker ids among the marked ones
        nd::assume(!(marked[0] && marked[1] && mid[0] == mid[1]));
        nd::assume(!(marked[0] && marked[2] && mid[0] == mid[2]));
        nd::assume(!(marked[1] && marked[2] && mid[1] == mid[2]));
        for i in 0..NI {
            // a reference component only on marked entities pointing at marked entities (the
            // conversion of an entity field unwraps the marker lookup by design)
            if marked[i] && marked[refs[i]] && crm[i] {
                let tag = nd::u8();
                let r = sr.insert(es[i], CR { target: es[refs[i]], tag });
                assert!(r.is_ok());
                forget(r);
                cr[i] = Some(tag);
            }
        }
    }
    // ---------------- save
    let mut buf = Buf::new();
    {
        let ents = w1.entities();
        let sm = w1.read_storage::<Mk>();
        let sv = w1.read_storage::<CV>();
        let sr = w1.read_storage::<CR>();
        let r = SerializeComponents::<Infallible, Mk>::serialize(&(&sv, &sr), &ents, &sm, Ser { buf: &mut buf });
        assert!(r.is_ok(), "C14: serialisation of a well-formed world failed");
        forget(r);
    }
    // ---------------- load into an empty world
    let w2 = new_world();
    // an empty allocator, assigned IN PLACE: the default `EntitiesRes` that `World::new` moves
    // into its box is copied bytewise and its counters stop being constants for the symbolic
    // executor (every atomic creation then yields a symbolic index)
    w2.write_resource::<EntitiesRes>().verif_assign_parts(NI + 1, NI + 1, &[], &[], 0, 0, 0);
    let mut alloc = MkAlloc::default();
    {
        let ents = w2.entities();
        let mut sm = w2.write_storage::<Mk>();
        let mut sv = w2.write_storage::<CV>();
        let mut sr = w2.write_storage::<CR>();
        let mut de = De { buf: &buf, pos: 0 };
        let r = DeserializeComponents::<Infallible, Mk>::deserialize(&mut (&mut sv, &mut sr), &ents, &mut sm, &mut alloc, &mut de);
        assert!(r.is_ok(), "C14: deserialisation of serialised data failed");
        forget(r);
        assert!(de.pos == buf.n, "C14: the loader did not consume all the data");
    }
    // ---------------- compare
    let ents = w2.entities();
    let sm = w2.read_storage::<Mk>();
    let sv = w2.read_storage::<CV>();
    let sr = w2.read_storage::<CR>();
    let mut n_marked = 0;
    for i in 0..NI {
        if marked[i] {
            n_marked += 1;
        }
    }
    // loaded entities occupy indices 0 .. n_marked (created atomically in an empty world)
    let mut n_loaded = 0;
    let mut seen = [0u8; NI];
    for j in 0..NI {
        let cur = ents.entity(IDS[j]);
        // occupied = in the allocator's alive or raised set (`is_alive` also answers true for the
        // generation-1 handle of a never-used index)
        let alive = (ents.verif_alive(IDS[j]) || ents.verif_raised(IDS[j])) && ents.is_alive(cur);
        let has_marker = sm.mask().contains(IDS[j]);
        if alive {
            n_loaded += 1;
            assert!(has_marker, "C14: a loaded entity carries no marker");
        } else {
            assert!(!has_marker && !sv.mask().contains(IDS[j]) && !sr.mask().contains(IDS[j]), "C14: component data on an index without a loaded entity");
        }
        if alive && has_marker {
            let m = match sm.get(cur) {
                Some(m) => m.0,
                None => {
                    assert!(false, "C14: marker lookup failed");
                    0
                }
            };
            // which source entity is this?
            let mut src = NI;
            for i in 0..NI {
                if marked[i] && mid[i] == m {
                    src = i;
                    seen[i] += 1;
                }
            }
            assert!(src < NI, "C14: a loaded entity carries a marker no source entity had");
            for i in 0..NI {
                if i == src {
                    assert!(sv.get(cur).map(|c| c.0) == cv[i], "C14: a plain component differs after the round trip");
                    match sr.get(cur) {
                        None => assert!(cr[i].is_none(), "C14: a reference component was lost"),
                        Some(c) => {
                            assert!(cr[i] == Some(c.tag), "C14: a reference component appeared or its data changed");
                            // the target must be the loaded entity carrying the source target's marker
                            let t = c.target;
                            assert!(ents.is_alive(t), "C14: a loaded reference points at a dead entity");
                            let tm = sm.get(t).map(|x| x.0);
                            assert!(tm == Some(mid[refs[i]]), "C14: a loaded reference points at the wrong entity");
                        }
                    }
                }
            }
        }
    }
    assert!(n_loaded == n_marked, "C14: the number of loaded entities differs from the number of marked source entities");
    for i in 0..NI {
        assert!(seen[i] == if marked[i] { 1 } else { 0 }, "C14: a marked entity was not loaded exactly once / an unmarked one was transferred");
    }
    witness!(true, "end reached");
    forget((ents, sm, sv, sr));
    forget((w1, w2, alloc));
}

/// Sequential stand-ins for specs' private CAS loops `atomic_increment` / `atomic_decrement`
/// (same result on a single thread; the loops themselves are decided by the allocator harnesses).
pub fn inc_stub(i: &std::sync::atomic::AtomicUsize) -> Option<usize> {
    use std::sync::atomic::Ordering;
    let p = i.load(Ordering::Relaxed);
    if p == usize::MAX {
        None
    } else {
        i.store(p + 1, Ordering::Relaxed);
        Some(p)
    }
}
pub fn dec_stub(i: &std::sync::atomic::AtomicUsize) -> Option<usize> {
    use std::sync::atomic::Ordering;
    let p = i.load(Ordering::Relaxed);
    if p == 0 {
        None
    } else {
        i.store(p - 1, Ordering::Relaxed);
        Some(p)
    }
}

include!("variants.rs");
