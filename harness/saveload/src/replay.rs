fn main() {
    vsupport::replay_main(h_saveload::REGISTRY)
}
