//! A minimal in-memory serde data format (token stream in a fixed buffer).
//!
//! The property quantifies over data formats only through serde's data model; this format
//! keeps exactly that model (sequences with or without a length hint, tuples, structs as
//! positional tuples, newtype structs, options, `u8`) and nothing else, so that the solver
//! executes specs' `SerializeComponents` / `DeserializeComponents` / `EntityData` /
//! `ConvertSaveload` code and not a text parser.

use serde::de::{self, DeserializeSeed, Visitor};
use serde::ser::{self, Serialize};
use std::fmt;

#[derive(Clone, Copy, PartialEq, Eq, Debug)]
pub enum Tok {
    U8(u8),
    Some,
    None,
    /// start of a sequence with a known length
    Seq(u8),
    /// start of a sequence of unknown length (terminated by `End`)
    SeqOpen,
    End,
    Nil,
}

pub const BUF: usize = 40;

pub struct Buf {
    pub t: [Tok; BUF],
    pub n: usize,
}

impl Buf {
    pub fn new() -> Buf {
        Buf { t: [Tok::Nil; BUF], n: 0 }
    }
    fn put(&mut self, t: Tok) -> Result<(), FErr> {
        if self.n >= BUF {
            return Err(FErr);
        }
        self.t[self.n] = t;
        self.n += 1;
        Ok(())
    }
}

#[derive(Debug)]
pub struct FErr;
impl fmt::Display for FErr {
    fn fmt(&self, f: &mut fmt::Formatter<'_>) -> fmt::Result {
        f.write_str("format error")
    }
}
impl std::error::Error for FErr {}
impl ser::Error for FErr {
    fn custom<T: fmt::Display>(_msg: T) -> Self {
        FErr
    }
}
impl de::Error for FErr {
    fn custom<T: fmt::Display>(_msg: T) -> Self {
        FErr
    }
}

// ------------------------------------------------------------------ serializer
pub struct Ser<'a> {
    pub buf: &'a mut Buf,
}
pub struct SerSeq<'a> {
    buf: &'a mut Buf,
    open: bool,
}

macro_rules! unsupported {
    ($($name:ident($($t:ty),*);)*) => {
        $(fn $name(self, $(_: $t),*) -> Result<(), FErr> { Err(FErr) })*
    };
}

impl<'a> ser::Serializer for Ser<'a> {
    type Ok = ();
    type Error = FErr;
    type SerializeSeq = SerSeq<'a>;
    type SerializeTuple = SerSeq<'a>;
    type SerializeTupleStruct = SerSeq<'a>;
    type SerializeTupleVariant = ser::Impossible<(), FErr>;
    type SerializeMap = ser::Impossible<(), FErr>;
    type SerializeStruct = SerSeq<'a>;
    type SerializeStructVariant = ser::Impossible<(), FErr>;

    fn serialize_u8(self, v: u8) -> Result<(), FErr> {
        self.buf.put(Tok::U8(v))
    }
    unsupported! {
        serialize_bool(bool); serialize_i8(i8); serialize_i16(i16); serialize_i32(i32); serialize_i64(i64);
        serialize_u16(u16); serialize_u32(u32); serialize_u64(u64); serialize_f32(f32); serialize_f64(f64);
        serialize_char(char); serialize_str(&str); serialize_bytes(&[u8]);
        serialize_unit_struct(&'static str); serialize_unit_variant(&'static str, u32, &'static str);
    }
    fn serialize_unit(self) -> Result<(), FErr> {
        Ok(())
    }
    fn serialize_none(self) -> Result<(), FErr> {
        self.buf.put(Tok::None)
    }
    fn serialize_some<T: ?Sized + Serialize>(self, v: &T) -> Result<(), FErr> {
        self.buf.put(Tok::Some)?;
        v.serialize(Ser { buf: self.buf })
    }
    fn serialize_newtype_struct<T: ?Sized + Serialize>(self, _: &'static str, v: &T) -> Result<(), FErr> {
        v.serialize(self)
    }
    fn serialize_newtype_variant<T: ?Sized + Serialize>(self, _: &'static str, _: u32, _: &'static str, _: &T) -> Result<(), FErr> {
        Err(FErr)
    }
    fn serialize_seq(self, len: Option<usize>) -> Result<SerSeq<'a>, FErr> {
        match len {
            Some(n) => {
                self.buf.put(Tok::Seq(n as u8))?;
                Ok(SerSeq { buf: self.buf, open: false })
            }
            None => {
                self.buf.put(Tok::SeqOpen)?;
                Ok(SerSeq { buf: self.buf, open: true })
            }
        }
    }
    fn serialize_tuple(self, _len: usize) -> Result<SerSeq<'a>, FErr> {
        Ok(SerSeq { buf: self.buf, open: false })
    }
    fn serialize_tuple_struct(self, _: &'static str, _len: usize) -> Result<SerSeq<'a>, FErr> {
        Ok(SerSeq { buf: self.buf, open: false })
    }
    fn serialize_tuple_variant(self, _: &'static str, _: u32, _: &'static str, _: usize) -> Result<Self::SerializeTupleVariant, FErr> {
        Err(FErr)
    }
    fn serialize_map(self, _: Option<usize>) -> Result<Self::SerializeMap, FErr> {
        Err(FErr)
    }
    fn serialize_struct(self, _: &'static str, _len: usize) -> Result<SerSeq<'a>, FErr> {
        Ok(SerSeq { buf: self.buf, open: false })
    }
    fn serialize_struct_variant(self, _: &'static str, _: u32, _: &'static str, _: usize) -> Result<Self::SerializeStructVariant, FErr> {
        Err(FErr)
    }
    fn collect_str<T: ?Sized + fmt::Display>(self, _: &T) -> Result<(), FErr> {
        Err(FErr)
    }
}

impl<'a> ser::SerializeSeq for SerSeq<'a> {
    type Ok = ();
    type Error = FErr;
    fn serialize_element<T: ?Sized + Serialize>(&mut self, v: &T) -> Result<(), FErr> {
        v.serialize(Ser { buf: self.buf })
    }
    fn end(self) -> Result<(), FErr> {
        if self.open {
            self.buf.put(Tok::End)
        } else {
            Ok(())
        }
    }
}
impl<'a> ser::SerializeTuple for SerSeq<'a> {
    type Ok = ();
    type Error = FErr;
    fn serialize_element<T: ?Sized + Serialize>(&mut self, v: &T) -> Result<(), FErr> {
        v.serialize(Ser { buf: self.buf })
    }
    fn end(self) -> Result<(), FErr> {
        Ok(())
    }
}
impl<'a> ser::SerializeTupleStruct for SerSeq<'a> {
    type Ok = ();
    type Error = FErr;
    fn serialize_field<T: ?Sized + Serialize>(&mut self, v: &T) -> Result<(), FErr> {
        v.serialize(Ser { buf: self.buf })
    }
    fn end(self) -> Result<(), FErr> {
        Ok(())
    }
}
impl<'a> ser::SerializeStruct for SerSeq<'a> {
    type Ok = ();
    type Error = FErr;
    fn serialize_field<T: ?Sized + Serialize>(&mut self, _: &'static str, v: &T) -> Result<(), FErr> {
        v.serialize(Ser { buf: self.buf })
    }
    fn end(self) -> Result<(), FErr> {
        Ok(())
    }
}

// ------------------------------------------------------------------ deserializer
pub struct De<'a> {
    pub buf: &'a Buf,
    pub pos: usize,
}

impl<'a> De<'a> {
    fn next(&mut self) -> Result<Tok, FErr> {
        if self.pos >= self.buf.n {
            return Err(FErr);
        }
        let t = self.buf.t[self.pos];
        self.pos += 1;
        Ok(t)
    }
    fn peek(&self) -> Tok {
        if self.pos >= self.buf.n {
            Tok::Nil
        } else {
            self.buf.t[self.pos]
        }
    }
}

/// sequence access: `left = Some(n)` elements to go, or until `End`
struct SeqAcc<'b, 'a> {
    de: &'b mut De<'a>,
    left: Option<usize>,
}

impl<'de, 'b, 'a> de::SeqAccess<'de> for SeqAcc<'b, 'a> {
    type Error = FErr;
    fn next_element_seed<T: DeserializeSeed<'de>>(&mut self, seed: T) -> Result<Option<T::Value>, FErr> {
        match self.left {
            Some(0) => Ok(None),
            Some(n) => {
                self.left = Some(n - 1);
                seed.deserialize(&mut *self.de).map(Some)
            }
            None => {
                if self.de.peek() == Tok::End {
                    self.de.pos += 1;
                    self.left = Some(0);
                    Ok(None)
                } else {
                    seed.deserialize(&mut *self.de).map(Some)
                }
            }
        }
    }
}

macro_rules! de_unsupported {
    ($($name:ident)*) => {
        $(fn $name<V: Visitor<'de>>(self, _v: V) -> Result<V::Value, FErr> { Err(FErr) })*
    };
}

impl<'de, 'b, 'a> de::Deserializer<'de> for &'b mut De<'a> {
    type Error = FErr;
    de_unsupported! {
        deserialize_any deserialize_bool deserialize_i8 deserialize_i16 deserialize_i32 deserialize_i64
        deserialize_u16 deserialize_u32 deserialize_u64 deserialize_f32 deserialize_f64 deserialize_char
        deserialize_str deserialize_string deserialize_bytes deserialize_byte_buf deserialize_map
        deserialize_identifier deserialize_ignored_any
    }
    fn deserialize_u8<V: Visitor<'de>>(self, v: V) -> Result<V::Value, FErr> {
        match self.next()? {
            Tok::U8(x) => v.visit_u8(x),
            _ => Err(FErr),
        }
    }
    fn deserialize_unit<V: Visitor<'de>>(self, v: V) -> Result<V::Value, FErr> {
        v.visit_unit()
    }
    fn deserialize_unit_struct<V: Visitor<'de>>(self, _: &'static str, v: V) -> Result<V::Value, FErr> {
        v.visit_unit()
    }
    fn deserialize_option<V: Visitor<'de>>(self, v: V) -> Result<V::Value, FErr> {
        match self.next()? {
            Tok::None => v.visit_none(),
            Tok::Some => v.visit_some(self),
            _ => Err(FErr),
        }
    }
    fn deserialize_newtype_struct<V: Visitor<'de>>(self, _: &'static str, v: V) -> Result<V::Value, FErr> {
        v.visit_newtype_struct(self)
    }
    fn deserialize_seq<V: Visitor<'de>>(self, v: V) -> Result<V::Value, FErr> {
        match self.next()? {
            Tok::Seq(n) => v.visit_seq(SeqAcc { de: self, left: Some(n as usize) }),
            Tok::SeqOpen => v.visit_seq(SeqAcc { de: self, left: None }),
            _ => Err(FErr),
        }
    }
    fn deserialize_tuple<V: Visitor<'de>>(self, len: usize, v: V) -> Result<V::Value, FErr> {
        v.visit_seq(SeqAcc { de: self, left: Some(len) })
    }
    fn deserialize_tuple_struct<V: Visitor<'de>>(self, _: &'static str, len: usize, v: V) -> Result<V::Value, FErr> {
        v.visit_seq(SeqAcc { de: self, left: Some(len) })
    }
    fn deserialize_struct<V: Visitor<'de>>(self, _: &'static str, fields: &'static [&'static str], v: V) -> Result<V::Value, FErr> {
        v.visit_seq(SeqAcc { de: self, left: Some(fields.len()) })
    }
    fn deserialize_enum<V: Visitor<'de>>(self, _: &'static str, _: &'static [&'static str], _v: V) -> Result<V::Value, FErr> {
        Err(FErr)
    }
}
