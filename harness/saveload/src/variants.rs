// GENERATED (see the generator embedded in the commit history / DESIGN.md): reference pattern x marked set
harness! { #[cfg_attr(kani, kani::stub(core::fmt::write, vsupport::fmt_write_stub))] fn q_rt_fwd_m111() unwind(8) { round_trip([1, 2, 0], [true, true, true]) } }
harness! { #[cfg_attr(kani, kani::stub(core::fmt::write, vsupport::fmt_write_stub))] fn t_rt_fwd_m110() unwind(8) { round_trip([1, 2, 0], [true, true, false]) } }
harness! { #[cfg_attr(kani, kani::stub(core::fmt::write, vsupport::fmt_write_stub))] fn t_rt_fwd_m101() unwind(8) { round_trip([1, 2, 0], [true, false, true]) } }
harness! { #[cfg_attr(kani, kani::stub(core::fmt::write, vsupport::fmt_write_stub))] fn t_rt_fwd_m100() unwind(8) { round_trip([1, 2, 0], [true, false, false]) } }
harness! { #[cfg_attr(kani, kani::stub(core::fmt::write, vsupport::fmt_write_stub))] fn t_rt_fwd_m011() unwind(8) { round_trip([1, 2, 0], [false, true, true]) } }
harness! { #[cfg_attr(kani, kani::stub(core::fmt::write, vsupport::fmt_write_stub))] fn q_rt_fwd_m010() unwind(8) { round_trip([1, 2, 0], [false, true, false]) } }
harness! { #[cfg_attr(kani, kani::stub(core::fmt::write, vsupport::fmt_write_stub))] fn t_rt_fwd_m001() unwind(8) { round_trip([1, 2, 0], [false, false, true]) } }
harness! { #[cfg_attr(kani, kani::stub(core::fmt::write, vsupport::fmt_write_stub))] fn t_rt_fwd_m000() unwind(8) { round_trip([1, 2, 0], [false, false, false]) } }
harness! { #[cfg_attr(kani, kani::stub(core::fmt::write, vsupport::fmt_write_stub))] fn q_rt_self_m111() unwind(8) { round_trip([0, 1, 2], [true, true, true]) } }
harness! { #[cfg_attr(kani, kani::stub(core::fmt::write, vsupport::fmt_write_stub))] fn t_rt_self_m110() unwind(8) { round_trip([0, 1, 2], [true, true, false]) } }
harness! { #[cfg_attr(kani, kani::stub(core::fmt::write, vsupport::fmt_write_stub))] fn t_rt_self_m101() unwind(8) { round_trip([0, 1, 2], [true, false, true]) } }
harness! { #[cfg_attr(kani, kani::stub(core::fmt::write, vsupport::fmt_write_stub))] fn t_rt_self_m100() unwind(8) { round_trip([0, 1, 2], [true, false, false]) } }
harness! { #[cfg_attr(kani, kani::stub(core::fmt::write, vsupport::fmt_write_stub))] fn t_rt_self_m011() unwind(8) { round_trip([0, 1, 2], [false, true, true]) } }
harness! { #[cfg_attr(kani, kani::stub(core::fmt::write, vsupport::fmt_write_stub))] fn t_rt_self_m010() unwind(8) { round_trip([0, 1, 2], [false, true, false]) } }
harness! { #[cfg_attr(kani, kani::stub(core::fmt::write, vsupport::fmt_write_stub))] fn t_rt_self_m001() unwind(8) { round_trip([0, 1, 2], [false, false, true]) } }
harness! { #[cfg_attr(kani, kani::stub(core::fmt::write, vsupport::fmt_write_stub))] fn q_rt_self_m000() unwind(8) { round_trip([0, 1, 2], [false, false, false]) } }
harness! { #[cfg_attr(kani, kani::stub(core::fmt::write, vsupport::fmt_write_stub))] fn t_rt_back_m111() unwind(8) { round_trip([0, 0, 1], [true, true, true]) } }
harness! { #[cfg_attr(kani, kani::stub(core::fmt::write, vsupport::fmt_write_stub))] fn q_rt_back_m110() unwind(8) { round_trip([0, 0, 1], [true, true, false]) } }
harness! { #[cfg_attr(kani, kani::stub(core::fmt::write, vsupport::fmt_write_stub))] fn t_rt_back_m101() unwind(8) { round_trip([0, 0, 1], [true, false, true]) } }
harness! { #[cfg_attr(kani, kani::stub(core::fmt::write, vsupport::fmt_write_stub))] fn t_rt_back_m100() unwind(8) { round_trip([0, 0, 1], [true, false, false]) } }
harness! { #[cfg_attr(kani, kani::stub(core::fmt::write, vsupport::fmt_write_stub))] fn t_rt_back_m011() unwind(8) { round_trip([0, 0, 1], [false, true, true]) } }
harness! { #[cfg_attr(kani, kani::stub(core::fmt::write, vsupport::fmt_write_stub))] fn t_rt_back_m010() unwind(8) { round_trip([0, 0, 1], [false, true, false]) } }
harness! { #[cfg_attr(kani, kani::stub(core::fmt::write, vsupport::fmt_write_stub))] fn t_rt_back_m001() unwind(8) { round_trip([0, 0, 1], [false, false, true]) } }
harness! { #[cfg_attr(kani, kani::stub(core::fmt::write, vsupport::fmt_write_stub))] fn t_rt_back_m000() unwind(8) { round_trip([0, 0, 1], [false, false, false]) } }
harness! { #[cfg_attr(kani, kani::stub(core::fmt::write, vsupport::fmt_write_stub))] fn q_rt_last_m111() unwind(8) { round_trip([2, 2, 2], [true, true, true]) } }
harness! { #[cfg_attr(kani, kani::stub(core::fmt::write, vsupport::fmt_write_stub))] fn t_rt_last_m110() unwind(8) { round_trip([2, 2, 2], [true, true, false]) } }
harness! { #[cfg_attr(kani, kani::stub(core::fmt::write, vsupport::fmt_write_stub))] fn q_rt_last_m101() unwind(8) { round_trip([2, 2, 2], [true, false, true]) } }
harness! { #[cfg_attr(kani, kani::stub(core::fmt::write, vsupport::fmt_write_stub))] fn t_rt_last_m100() unwind(8) { round_trip([2, 2, 2], [true, false, false]) } }
harness! { #[cfg_attr(kani, kani::stub(core::fmt::write, vsupport::fmt_write_stub))] fn t_rt_last_m011() unwind(8) { round_trip([2, 2, 2], [false, true, true]) } }
harness! { #[cfg_attr(kani, kani::stub(core::fmt::write, vsupport::fmt_write_stub))] fn t_rt_last_m010() unwind(8) { round_trip([2, 2, 2], [false, true, false]) } }
harness! { #[cfg_attr(kani, kani::stub(core::fmt::write, vsupport::fmt_write_stub))] fn t_rt_last_m001() unwind(8) { round_trip([2, 2, 2], [false, false, true]) } }
harness! { #[cfg_attr(kani, kani::stub(core::fmt::write, vsupport::fmt_write_stub))] fn t_rt_last_m000() unwind(8) { round_trip([2, 2, 2], [false, false, false]) } }

pub const REGISTRY: &[(&str, fn())] = &[
    ("q_rt_fwd_m111", q_rt_fwd_m111 as fn()),
    ("t_rt_fwd_m110", t_rt_fwd_m110 as fn()),
    ("t_rt_fwd_m101", t_rt_fwd_m101 as fn()),
    ("t_rt_fwd_m100", t_rt_fwd_m100 as fn()),
    ("t_rt_fwd_m011", t_rt_fwd_m011 as fn()),
    ("q_rt_fwd_m010", q_rt_fwd_m010 as fn()),
    ("t_rt_fwd_m001", t_rt_fwd_m001 as fn()),
    ("t_rt_fwd_m000", t_rt_fwd_m000 as fn()),
    ("q_rt_self_m111", q_rt_self_m111 as fn()),
    ("t_rt_self_m110", t_rt_self_m110 as fn()),
    ("t_rt_self_m101", t_rt_self_m101 as fn()),
    ("t_rt_self_m100", t_rt_self_m100 as fn()),
    ("t_rt_self_m011", t_rt_self_m011 as fn()),
    ("t_rt_self_m010", t_rt_self_m010 as fn()),
    ("t_rt_self_m001", t_rt_self_m001 as fn()),
    ("q_rt_self_m000", q_rt_self_m000 as fn()),
    ("t_rt_back_m111", t_rt_back_m111 as fn()),
    ("q_rt_back_m110", q_rt_back_m110 as fn()),
    ("t_rt_back_m101", t_rt_back_m101 as fn()),
    ("t_rt_back_m100", t_rt_back_m100 as fn()),
    ("t_rt_back_m011", t_rt_back_m011 as fn()),
    ("t_rt_back_m010", t_rt_back_m010 as fn()),
    ("t_rt_back_m001", t_rt_back_m001 as fn()),
    ("t_rt_back_m000", t_rt_back_m000 as fn()),
    ("q_rt_last_m111", q_rt_last_m111 as fn()),
    ("t_rt_last_m110", t_rt_last_m110 as fn()),
    ("q_rt_last_m101", q_rt_last_m101 as fn()),
    ("t_rt_last_m100", t_rt_last_m100 as fn()),
    ("t_rt_last_m011", t_rt_last_m011 as fn()),
    ("t_rt_last_m010", t_rt_last_m010 as fn()),
    ("t_rt_last_m001", t_rt_last_m001 as fn()),
    ("t_rt_last_m000", t_rt_last_m000 as fn()),
];
