#!/usr/bin/env python3
"""Generates src/variants.rs: one Kani harness per concrete variant (see lib.rs `Fix`).

Tiers: q_ = quick (N=3 indices; maintain over N=2), t_ = thorough (N=4; maintain over N=3).
The variant sets are exhaustive for their bounds except where marked 'canonical'
(index patterns up to renaming of indices), which the thorough tier replaces by
the full set.
"""
import itertools, sys, os

out = []
names = []

def h(name, unwind, body):
    out.append("harness! { fn %s() unwind(%d) { %s } }" % (name, unwind, body))
    names.append(name)

def fix(raised=None, killed=None, cache_len=None, tail=0, top=None, second=None, gen_len=None):
    def o(x):
        return "None" if x is None else "Some(%s)" % x
    gl = "GenLen::Full" if gen_len is None else "GenLen::Fixed(%d)" % gen_len
    return "Fix { raised: %s, killed: %s, cache_len: %s, tail: %d, top: %s, second: %s, gen_len: %s }" % (
        o(raised), o(killed), o(cache_len), tail, o(top), o(second), gl)

def feasible(N, recycle, raised=None, killed=None, cache_len=None, top=None, second=None, gen_len=None,
             issued=(), room_for_two=False):
    """Is there an allocator state over N indices satisfying inv() with these parts fixed?
    (brute force over abstract per-index states; mirrors inv() in lib.rs)"""
    # states: Z zero/no bits, F dead on free list, L dead not on free list, A alive, R0 raised g=0, Rn raised g<0, U unused
    for max_id in range(0, N + 1):
        if room_for_two and max_id >= N:
            continue
        opts = []
        for i in range(N):
            if i >= max_id:
                opts.append(["U"])
                continue
            o = ["Z", "F", "L", "A", "R0", "Rn"]
            if recycle:
                o = [x for x in o if x in ("A", "R0", "Rn", "F")]
            if gen_len is not None and i >= gen_len:
                o = [x for x in o if x in ("Z", "R0")]
            if raised is not None:
                bit = (raised >> i) & 1
                o = [x for x in o if (x in ("R0", "Rn")) == bool(bit)]
            if killed is not None and (killed >> i) & 1:
                o = [x for x in o if x in ("A", "R0", "Rn")]
            opts.append(o)
        if (raised is not None and raised >> max_id) or (killed is not None and killed >> max_id):
            continue
        for st in itertools.product(*opts):
            free = [i for i in range(N) if st[i] == "F"]
            if cache_len is not None and len(free) != cache_len:
                continue
            if top is not None and top not in free:
                continue
            if second is not None and (second not in free or second == top):
                continue
            if any(st[i] in ("Z", "U") for i in issued):
                continue
            return True
    return False

SKIPPED = []

def family(tag, N, unwind, NM, full_patterns):
    M = N + 1
    g = "%d, %d" % (N, M)
    for rec, rp in ((False, ""), (True, "c17_")):
        r = "true" if rec else "false"
        h("%s_%spre_witness" % (tag, rp), unwind, "pre_witness_body::<%s>(%s)" % (g, r))
        # creation: free list length, stale tail and top entry fixed
        for tail in (0, 1):
            cache_variants = [(0, None)] + [(l, t) for l in range(1, N + 1) for t in range(N)]
            for (l, t) in cache_variants:
                if l + tail > M:
                    continue
                nm = ("c0" if l == 0 else "c%d_t%d" % (l, t)) + "_s%d" % tail
                if not feasible(N, rec, cache_len=l, top=t):
                    SKIPPED.append("%s %s%s" % (tag, rp, nm)); continue
                h("%s_%sstep_allocate_%s" % (tag, rp, nm), unwind,
                  "step_allocate_body::<%s>(%s, %s)" % (g, r, fix(cache_len=l, tail=tail, top=t)))
                h("%s_%sstep_allocate_atomic_%s" % (tag, rp, nm), unwind,
                  "step_allocate_atomic_body::<%s>(%s, %s)" % (g, r, fix(cache_len=l, tail=tail, top=t)))
        # growth of the generations vector: fresh index, fewer slots than indices in use
        for gl in range(0, N + 1):
            if not feasible(N, rec, cache_len=0, gen_len=gl):
                continue
            h("%s_%sstep_allocate_c0_g%d" % (tag, rp, gl), unwind,
              "step_allocate_body::<%s>(%s, %s)" % (g, r, fix(cache_len=0, tail=1, gen_len=gl)))
        # two creations in a row (create_iter, builders): top two entries fixed
        two = [("c0", fix(cache_len=0, tail=1)), ("c1_t0", fix(cache_len=1, tail=1, top=0))]
        pairs = [(a, b) for a in range(N) for b in range(N) if a != b] if full_patterns else [(0, 1), (1, 0)]
        for (a, b) in pairs:
            two.append(("c2_t%d_u%d" % (a, b), fix(cache_len=2, tail=1, top=a, second=b)))
        for (nm, fx) in two:
            h("%s_%sstep_create_iter_%s" % (tag, rp, nm), unwind, "step_create_iter_body::<%s>(%s, %s)" % (g, r, fx))
            h("%s_%sstep_builder_drop_%s" % (tag, rp, nm), unwind, "step_builder_drop_body::<%s>(%s, %s)" % (g, r, fx))
        for i in range(N):
            h("%s_%sstep_delete_atomic_i%d" % (tag, rp, i), unwind, "step_delete_atomic_body::<%s>(%s, %d)" % (g, r, i))
        # batch deletion: index pattern of the batch x free-list length
        pats = [(0, (0, 0, 0))]
        if full_patterns:
            for n in (1, 2, 3):
                for ids in itertools.product(range(N), repeat=n):
                    pats.append((n, tuple(ids) + (0,) * (3 - n)))
        else:
            # canonical patterns up to renaming of indices
            pats += [(1, (0, 0, 0)), (2, (0, 0, 0)), (2, (0, 1, 0)),
                     (3, (0, 0, 0)), (3, (0, 0, 1)), (3, (0, 1, 0)), (3, (1, 0, 0)), (3, (0, 1, 2))]
        for (n, ids) in pats:
            for cl in ((0, 1, 2) if full_patterns else (0, 1)):
                nm = "n%d_%s_c%d" % (n, "".join(str(x) for x in ids[:n]) or "e", cl)
                if not feasible(N, rec, cache_len=cl, issued=ids):
                    SKIPPED.append("%s %skill %s" % (tag, rp, nm)); continue
                h("%s_%sstep_kill_%s" % (tag, rp, nm), unwind,
                  "step_kill_body::<%s>(%s, %d, [%d, %d, %d], %s)" % (g, r, n, ids[0], ids[1], ids[2], fix(cache_len=cl, tail=1)))
        # batch deletion of entities that have no generation slot yet (created atomically)
        for gl in (0, 1):
            for (n, ids) in [(1, (0, 0, 0)), (2, (0, 1, 0)), (2, (1, 0, 0))]:
                nm = "n%d_%s_c0_g%d" % (n, "".join(str(x) for x in ids[:n]), gl)
                if not feasible(N, rec, cache_len=0, gen_len=gl, issued=ids):
                    SKIPPED.append("%s %skill %s" % (tag, rp, nm)); continue
                h("%s_%sstep_kill_%s" % (tag, rp, nm), unwind,
                  "step_kill_body::<%s>(%s, %d, [%d, %d, %d], %s)" % (g, r, n, ids[0], ids[1], ids[2], fix(cache_len=0, tail=1, gen_len=gl)))
        # maintain: deferred sets and free-list length fixed, over NM indices
        gm = "%d, %d" % (NM, NM + 1)
        for R in range(1 << NM):
            for K in range(1 << NM):
                for cl in (0, 1):
                    if not feasible(NM, rec, raised=R, killed=K, cache_len=cl):
                        SKIPPED.append("%s %smerge r%d k%d c%d" % (tag, rp, R, K, cl)); continue
                    h("%s_%sstep_merge_r%d_k%d_c%d" % (tag, rp, R, K, cl), unwind,
                      "step_merge_body::<%s>(%s, %s)" % (gm, r, fix(raised=R, killed=K, cache_len=cl, tail=1)))
                if R != 0:
                    # raised entities without a generation slot yet
                    for gl in (0, 1):
                        if not feasible(NM, rec, raised=R, killed=K, cache_len=0, gen_len=gl):
                            SKIPPED.append("%s %smerge r%d k%d c0 g%d" % (tag, rp, R, K, gl)); continue
                        h("%s_%sstep_merge_r%d_k%d_c0_g%d" % (tag, rp, R, K, gl), unwind,
                          "step_merge_body::<%s>(%s, %s)" % (gm, r, fix(raised=R, killed=K, cache_len=0, tail=1, gen_len=gl)))
    for i in range(N):
        h("%s_lemma_alive_i%d" % (tag, i), unwind, "lemma_alive_body::<%s>(%d)" % (g, i))
    h("%s_join_state" % tag, unwind, "join_state_body::<%s>()" % g)

# C20: twin allocators (same state, same operation)
for (nm, fx) in [("c0", fix(cache_len=0, tail=1)), ("c2_t1", fix(cache_len=2, tail=1, top=1)), ("c1_t0_g", fix(cache_len=1, tail=0, top=0))]:
    h("q_det_allocate_%s" % nm, 5, "det::det_create::<3, 4>(%s, false)" % fx)
    h("q_det_create_%s" % nm, 5, "det::det_create::<3, 4>(%s, true)" % fx)
# (det_kill: the twin batch deletion runs out of memory even over two indices; not generated)
for (R, K) in [(1, 1), (2, 3), (3, 2), (0, 3)]:
    h("q_det_merge_r%d_k%d" % (R, K), 5, "det::det_merge::<2, 3>(%s)" % fix(raised=R, killed=K, cache_len=0, tail=1))

family("q", 3, 5, 2, False)
family("t", 4, 6, 3, True)

hist = ["hist::n_hist", "hist::n_c17_hist"]
src = "// GENERATED by tools/gen_variants.py -- do not edit\n" + "\n".join(out) + "\n\n"
src += "pub const REGISTRY: &[(&str, fn())] = &[\n"
for n in names:
    src += '    ("%s", %s as fn()),\n' % (n, n)
for n in hist:
    src += '    ("%s", %s as fn()),\n' % (n.split("::")[-1], n)
src += "];\n"
path = os.path.join(os.path.dirname(os.path.abspath(__file__)), "..", "src", "variants.rs")
open(path, "w").write(src)
print(len(names), "harnesses;", len(SKIPPED), "infeasible variants skipped")
