//! Kani harnesses over the real entity allocator of `/repo`
//! (`src/world/entity.rs`), for C01 (handle uniqueness), C02 (aliveness
//! timeline) and C17 (index recycling).
//!
//! Two families:
//!  * `step_*`  — ONE operation from an ARBITRARY allocator state that satisfies
//!    the representation invariant `inv` (inductive step: covers histories of
//!    any length over at most `N` indices);
//!  * `hist_*`  — `K` symbolic operations from the EMPTY allocator, checked
//!    against a small reference model that never looks at internals (also shows
//!    that `inv` holds along real histories).
//!
//! Every assertion message starts with the property it belongs to (`C01:`,
//! `C02:`, `C17:`) or is untagged (harness sanity / shared invariant).
//!
//! The same bodies compile natively (no Kani, real hibitset) for replaying a
//! counterexample: see `vsupport::nd`.
#![allow(clippy::needless_range_loop)]

use specs::error::WrongGeneration;
use specs::join::Join;
use specs::world::{EntitiesRes, Entity, Index, VerifSlot};
use vsupport::{harness, nd, witness};

// Const parameters used throughout:
//   N  indices that may be in use in a symbolic pre-state
//   M  = N + 1: indices observed after one step (a step allocates at most one
//      fresh index; harnesses that allocate two assume max_id < N); also the
//      capacity of the free list's vector in a pre-state.
// The generations vector of a pre-state has capacity N + 2 (`merge` grows it to
// `max_id + 2`).

// --------------------------------------------------------------------------
// Views of the allocator through the read-only hooks
// --------------------------------------------------------------------------

#[derive(Clone, Copy, PartialEq, Eq, Debug)]
pub struct Slot {
    pub g: i32,
    pub alive: bool,
    pub raised: bool,
    pub killed: bool,
    /// number of occurrences in the effective free list
    pub free: u8,
}

#[derive(Clone, Copy, PartialEq, Eq, Debug)]
pub struct View<const MM: usize> {
    pub slots: [Slot; MM],
    pub max_id: usize,
    pub gen_len: usize,
    pub cache_len: usize,
    pub cache_vec_len: usize,
    /// every effective free-list entry is one of the `MM` observed indices
    pub free_in_range: bool,
}

pub fn view<const MM: usize>(ent: &EntitiesRes) -> View<MM> {
    let cache = ent.verif_cache();
    let cache_len = ent.verif_cache_len();
    let mut slots = [Slot {
        g: 0,
        alive: false,
        raised: false,
        killed: false,
        free: 0,
    }; MM];
    let mut free_in_range = true;
    for i in 0..MM {
        let id = i as Index;
        slots[i].g = ent.verif_gen(id).unwrap_or(0);
        slots[i].alive = ent.verif_alive(id);
        slots[i].raised = ent.verif_raised(id);
        slots[i].killed = ent.verif_killed(id);
    }
    // the free list holds at most MM + 3 entries after one step; scan it in
    // chunks of 4 so that no loop here needs an unwind bound above 5
    for chunk in 0..((MM + 3 + 3) / 4) {
        for k in 0..4 {
            let j = chunk * 4 + k;
            if j < MM + 3 && j < cache_len && j < cache.len() {
                let c = cache[j];
                let mut hit = false;
                for i in 0..MM {
                    if c == i as Index {
                        slots[i].free = slots[i].free.saturating_add(1);
                        hit = true;
                    }
                }
                if !hit {
                    free_in_range = false;
                }
            }
        }
    }
    View {
        slots,
        max_id: ent.verif_max_id(),
        gen_len: ent.verif_gen_len(),
        cache_len,
        cache_vec_len: cache.len(),
        free_in_range,
    }
}

/// Field-wise equality (avoids the slice-compare loop of the derived `==`).
pub fn same<const MM: usize>(a: &View<MM>, b: &View<MM>) -> bool {
    let mut eq = a.max_id == b.max_id
        && a.gen_len == b.gen_len
        && a.cache_len == b.cache_len
        && a.cache_vec_len == b.cache_vec_len;
    for i in 0..MM {
        eq &= a.slots[i].g == b.slots[i].g
            && a.slots[i].alive == b.slots[i].alive
            && a.slots[i].raised == b.slots[i].raised
            && a.slots[i].killed == b.slots[i].killed
            && a.slots[i].free == b.slots[i].free;
    }
    eq
}

/// Representation invariant. `recycle` adds the C17 conjunct: every index
/// below `max_id` is alive, awaiting maintain, or on the effective free list.
pub fn inv<const MM: usize>(v: &View<MM>, recycle: bool) -> bool {
    if v.max_id > MM || v.cache_len > v.cache_vec_len || !v.free_in_range {
        return false;
    }
    let mut ok = true;
    for i in 0..MM {
        let s = v.slots[i];
        ok &= s.alive == (s.g > 0);
        ok &= !(s.raised && s.g > 0);
        ok &= !s.killed || s.alive || s.raised;
        if i >= v.max_id {
            ok &= s.g == 0 && !s.alive && !s.raised && !s.killed && s.free == 0;
        }
        if i >= v.gen_len {
            ok &= s.g == 0;
        }
        ok &= s.free <= 1;
        if s.free == 1 {
            ok &= s.g < 0 && !s.raised;
        }
        if recycle && i < v.max_id {
            ok &= s.alive || s.raised || s.free == 1;
        }
    }
    ok
}

/// Largest generation ever issued for the index, as a function of the state.
pub fn mag(s: &Slot) -> i32 {
    if s.g > 0 {
        s.g
    } else if s.raised {
        1 - s.g
    } else {
        -s.g
    }
}

/// Is there an entity on this index that is not yet dead?
pub fn occupied(s: &Slot) -> bool {
    s.alive || s.raised
}

// --------------------------------------------------------------------------
// Symbolic pre-state
// --------------------------------------------------------------------------

/// Parts of the pre-state that a harness variant fixes to concrete values so
/// that the indices the operation touches are constants inside one query
/// (symbolic indices into the bit sets and vectors cost CBMC minutes). The set
/// of variants generated in `variants.rs` is exhaustive for the stated bounds.
#[derive(Clone, Copy)]
pub struct Fix {
    /// membership of each index in the `raised` set (bit i), if fixed
    pub raised: Option<u8>,
    /// membership of each index in the `killed` set (bit i), if fixed
    pub killed: Option<u8>,
    /// effective length of the free list, if fixed; its vector then has
    /// `len + tail` entries (a stale tail is what `pop_atomic` leaves behind)
    pub cache_len: Option<usize>,
    pub tail: usize,
    /// top entry of the free list, if fixed (needs a fixed length >= 1)
    pub top: Option<Index>,
    /// entry below the top, if fixed (needs a fixed length >= 2)
    pub second: Option<Index>,
    /// length of the generations vector
    pub gen_len: GenLen,
}

/// Length of the generations vector in a pre-state (capacity is always N + 2).
#[derive(Clone, Copy)]
pub enum GenLen {
    /// N + 2: every index has a slot (unused ones hold `None`)
    Full,
    /// symbolic, 0 ..= N + 2 — only for read-only operations (a symbolic Vec
    /// length followed by `resize` costs CBMC minutes)
    Sym,
    /// this many slots: indices at or above it have no slot yet, so the
    /// operation under test runs the growth path of `update_generation_length`
    Fixed(usize),
}

pub const FREE: Fix = Fix { raised: None, killed: None, cache_len: None, tail: 0, top: None, second: None, gen_len: GenLen::Full };
/// Everything symbolic, including both vector lengths (read-only operations).
pub const FREE_SYM: Fix = Fix { raised: None, killed: None, cache_len: None, tail: 0, top: None, second: None, gen_len: GenLen::Sym };

pub fn any_allocator<const N: usize, const M: usize>(recycle: bool) -> (EntitiesRes, View<M>) {
    any_allocator_fix::<N, M>(recycle, FREE)
}

/// Builds an arbitrary allocator over `N` indices and assumes `inv`.
/// The explicit parts of a symbolic allocator state.
pub struct Parts<const N: usize, const M: usize> {
    pub slots: [VerifSlot; N],
    pub cache: [Index; M],
    pub gen_len: usize,
    pub cache_vec_len: usize,
    pub cache_len: usize,
    pub max_id: usize,
}

impl<const N: usize, const M: usize> Parts<N, M> {
    pub fn build(&self) -> EntitiesRes {
        EntitiesRes::verif_from_parts(
            N + 2,
            self.gen_len,
            &self.slots,
            &self.cache,
            self.cache_vec_len,
            self.cache_len,
            self.max_id,
        )
    }
}

pub fn any_parts<const N: usize, const M: usize>(fix: Fix) -> Parts<N, M> {
    assert!(M == N + 1);
    let mut slots = [VerifSlot {
        id: 0,
        gen: 0,
        alive: false,
        raised: false,
        killed: false,
    }; N];
    for i in 0..N {
        slots[i] = VerifSlot {
            id: i as Index,
            gen: nd::i32(),
            alive: nd::bool(),
            raised: match fix.raised {
                Some(m) => (m >> i) & 1 == 1,
                None => nd::bool(),
            },
            killed: match fix.killed {
                Some(m) => (m >> i) & 1 == 1,
                None => nd::bool(),
            },
        };
    }
    let mut cache = [0 as Index; M];
    for j in 0..M {
        cache[j] = nd::u32();
    }
    if let Some(len) = fix.cache_len {
        if let Some(top) = fix.top {
            cache[len - 1] = top;
        }
        if let Some(sec) = fix.second {
            cache[len - 2] = sec;
        }
    }
    let gen_len = match fix.gen_len {
        GenLen::Full => N + 2,
        GenLen::Fixed(k) => k,
        GenLen::Sym => {
            let g = nd::usize();
            nd::assume(g <= N + 2);
            g
        }
    };
    // Vector lengths are concrete whenever the operation under test can grow or
    // shrink the vector (a symbolic length followed by `reserve`/`resize` costs
    // CBMC minutes); they stay symbolic for read-only operations.
    let (cache_len, cache_vec_len) = match fix.cache_len {
        Some(len) => (len, len + fix.tail),
        None => {
            let v = nd::usize();
            nd::assume(v <= M);
            let l = nd::usize();
            nd::assume(l <= v);
            (l, v)
        }
    };
    assert!(cache_vec_len <= M);
    let max_id = nd::usize();
    nd::assume(max_id <= N);
    Parts { slots, cache, gen_len, cache_vec_len, cache_len, max_id }
}

pub fn any_allocator_fix<const N: usize, const M: usize>(recycle: bool, fix: Fix) -> (EntitiesRes, View<M>) {
    let parts = any_parts::<N, M>(fix);
    let ent = parts.build();
    let v: View<M> = view(&ent);
    nd::assume(inv(&v, recycle));
    // generation overflow after 2^31 reuses of one index is outside the claim
    for i in 0..N {
        nd::assume(v.slots[i].g > -(i32::MAX - 4) && v.slots[i].g < i32::MAX - 4);
    }
    (ent, v)
}

/// An arbitrary handle that was issued at some point of the history leading to
/// `v`: its generation lies in `1 ..= mag(index)`.
pub fn any_issued_handle<const N: usize, const M: usize>(v: &View<M>) -> Entity {
    let id = nd::below(N as u8) as usize;
    let gen = nd::i32();
    let mut m = 0;
    for i in 0..N {
        if i == id {
            m = mag(&v.slots[i]);
        }
    }
    nd::assume(gen >= 1 && gen <= m);
    Entity::verif_new(id as Index, gen)
}

pub fn issued_handle_at<const M: usize>(v: &View<M>, id: usize) -> Entity {
    let gen = nd::i32();
    nd::assume(gen >= 1 && gen <= mag(&v.slots[id]));
    Entity::verif_new(id as Index, gen)
}

fn slot_of<const M: usize>(v: &View<M>, id: Index) -> Slot {
    let mut r = v.slots[0];
    for i in 0..M {
        if i as Index == id {
            r = v.slots[i];
        }
    }
    r
}

/// Aliveness of an issued handle as the timeline defines it, from the state.
fn model_alive<const M: usize>(v: &View<M>, e: Entity) -> bool {
    let s = slot_of(v, e.id());
    (s.alive && e.gen().id() == s.g) || (s.raised && e.gen().id() == 1 - s.g)
}

/// Witnesses that the assumed pre-state covers the interesting classes.
fn pre_witness_body<const N: usize, const M: usize>(recycle: bool) {
    let (ent, v) = any_allocator_fix::<N, M>(recycle, FREE_SYM);
    witness!(v.cache_len > 0, "pre: free list non-empty");
    witness!(v.cache_vec_len > v.cache_len, "pre: free list has a stale tail");
    witness!(v.cache_len == 0 && v.max_id == N, "pre: all indices in use");
    witness!(v.slots[0].raised && v.slots[0].g < 0, "pre: index reused, awaiting maintain");
    witness!(v.slots[1].killed && v.slots[1].alive, "pre: deletion pending");
    witness!(v.slots[1].killed && v.slots[1].raised, "pre: created and deleted before maintain");
    witness!(v.gen_len < v.max_id, "pre: generations vector shorter than max_id");
    witness!(v.slots[2].g > 5, "pre: index reused many times");
    witness!(v.max_id == 0, "pre: empty allocator");
    std::mem::forget(ent);
}

// --------------------------------------------------------------------------
// Post-conditions shared by the creation steps
// --------------------------------------------------------------------------

#[allow(clippy::too_many_arguments)]
fn check_creation<const M: usize>(
    pre: &View<M>,
    post: &View<M>,
    r: Entity,
    ent: &EntitiesRes,
    recycle: bool,
) {
    let id = r.id() as usize;
    assert!(id < M, "created index within the observed range");
    let ps = slot_of(pre, r.id());
    let qs = slot_of(post, r.id());
    // C01: the index was free, the generation is new for this index
    assert!(!occupied(&ps), "C01: creation reused an index that is not dead");
    assert!(
        r.gen().id() == mag(&ps) + 1,
        "C01: returned generation must exceed every generation issued for the index"
    );
    // C01: largest issued generation never decreases, on any index
    for i in 0..M {
        assert!(mag(&post.slots[i]) >= mag(&pre.slots[i]), "C01: generation went backwards");
        if i != id {
            // every other index keeps generation, occupancy and pending mark,
            // hence (lemma_alive) every other handle keeps its aliveness
            assert!(
                post.slots[i].g == pre.slots[i].g
                    && post.slots[i].alive == pre.slots[i].alive
                    && post.slots[i].raised == pre.slots[i].raised
                    && post.slots[i].killed == pre.slots[i].killed,
                "C02: creation changed another index"
            );
        }
    }
    assert!(mag(&qs) == r.gen().id(), "C01: issued generation recorded");
    // C02: alive from the moment creation returns; nothing else changes
    assert!(ent.is_alive(r), "C02: new entity not alive");
    assert!(ent.entity(r.id()) == r, "C02: entity(index) is not the new handle");
    assert!(!qs.killed, "C02: new entity already marked for deletion");
    // C17: a never-used index only when the effective free list is empty
    if recycle && id >= pre.max_id {
        assert!(pre.cache_len == 0, "C17: fresh index taken although a dead index was free");
        assert!(id == pre.max_id, "C17: fresh index is not the lowest unused one");
    }
    assert!(inv(post, false), "invariant broken by creation");
    if recycle {
        assert!(inv(post, true), "C17: recycle invariant broken by creation");
    }
}

/// Lemma (C02): for every state satisfying inv and every handle ever issued on
/// index `ID`, `is_alive`, `entity` and `World::is_alive` agree with the
/// timeline state (alive with this generation, or awaiting maintain with it).
/// The step harnesses establish how each operation changes that state.
fn lemma_alive_body<const N: usize, const M: usize>(id: usize) {
    let (ent, pre) = any_allocator_fix::<N, M>(false, FREE_SYM);
    let h = issued_handle_at(&pre, id);
    let s = pre.slots[id];
    assert!(ent.is_alive(h) == model_alive(&pre, h), "C02: is_alive disagrees with the timeline state");
    if occupied(&s) {
        let cur = ent.entity(id as Index);
        assert!(cur.gen().id() == mag(&s) && ent.is_alive(cur), "C02: entity(index) is not the current handle");
        if s.alive {
            assert!(ent.verif_world_is_alive(cur), "C02: World::is_alive rejects a merged live entity");
        }
    }
    if h.gen().id() < mag(&s) {
        assert!(!ent.is_alive(h), "C02: a handle older than the newest one is reported alive");
        assert!(!ent.verif_world_is_alive(h), "C02: World::is_alive accepts a stale handle");
    }
    witness!(ent.is_alive(h) && s.raised, "lemma: alive while awaiting maintain");
    witness!(!ent.is_alive(h) && occupied(&s), "lemma: stale handle, index reused");
    std::mem::forget(ent);
}

fn step_allocate_body<const N: usize, const M: usize>(recycle: bool, fix: Fix) {
    let (mut ent, pre) = any_allocator_fix::<N, M>(recycle, fix);
    let r = ent.verif_allocate();
    let post: View<M> = view(&ent);
    check_creation(&pre, &post, r, &ent, recycle);
    assert!(slot_of(&post, r.id()).alive, "immediate creation is alive, not raised");
    witness!(true, "allocate: reached end");
    std::mem::forget(ent);
}

fn step_allocate_atomic_body<const N: usize, const M: usize>(recycle: bool, fix: Fix) {
    let (ent, pre) = any_allocator_fix::<N, M>(recycle, fix);
    let r = ent.create();
    let post: View<M> = view(&ent);
    check_creation(&pre, &post, r, &ent, recycle);
    assert!(slot_of(&post, r.id()).raised, "atomic creation is raised");
    witness!(true, "create: reached end");
    std::mem::forget(ent);
}

fn step_create_iter_body<const N: usize, const M: usize>(recycle: bool, fix: Fix) {
    // two entities from one create_iter(): distinct, both alive
    let (ent, pre) = any_allocator_fix::<N, M>(recycle, fix);
    nd::assume(pre.max_id < N); // leave room for two fresh indices within M
    let mut it = ent.create_iter();
    let a = it.next().unwrap();
    let mid: View<M> = view(&ent);
    check_creation(&pre, &mid, a, &ent, recycle);
    let b = it.next().unwrap();
    let post: View<M> = view(&ent);
    check_creation(&mid, &post, b, &ent, recycle);
    assert!(a != b && a.id() != b.id(), "C01: create_iter returned colliding entities");
    assert!(ent.is_alive(a) && ent.is_alive(b), "C02: create_iter entity not alive");
    witness!(true, "create_iter: reached end");
    std::mem::forget(ent);
}

fn step_delete_atomic_body<const N: usize, const M: usize>(recycle: bool, id: usize) {
    let (ent, pre) = any_allocator_fix::<N, M>(recycle, FREE_SYM);
    let e = issued_handle_at(&pre, id);
    let e_alive = ent.is_alive(e);
    let res = ent.delete(e);
    let res_ok = res.is_ok();
    let post: View<M> = view(&ent);
    match res {
        Ok(()) => {
            assert!(e_alive, "C02: delete of a dead handle succeeded");
            let mut expect = pre;
            expect.slots[id].killed = true;
            // only the pending mark changes: nobody's aliveness changes before maintain
            assert!(same(&expect, &post), "C02: deferred delete changed more than the pending mark of its entity");
            assert!(ent.is_alive(e), "C02: deferred delete took effect before maintain");
        }
        Err(WrongGeneration { entity, .. }) => {
            assert!(!e_alive, "C02: delete of a live handle failed");
            assert!(entity == e, "C02: error names another entity");
            assert!(same(&pre, &post), "C02: failed delete changed the state");
        }
    }
    witness!(res_ok && pre.slots[id].raised, "delete: succeeds on an entity awaiting maintain");
    witness!(!res_ok && occupied(&pre.slots[id]), "delete: fails for a stale handle whose index was reused");
    assert!(inv(&post, false), "invariant broken by deferred delete");
    if recycle {
        assert!(inv(&post, true), "C17: recycle invariant broken by deferred delete");
    }
    std::mem::forget(ent);
}

fn step_builder_drop_body<const N: usize, const M: usize>(recycle: bool, fix: Fix) {
    // EntityResBuilder dropped without build(): the entity is created and its
    // deletion requested; it stays alive until maintain.
    let (ent, pre) = any_allocator_fix::<N, M>(recycle, fix);
    nd::assume(pre.max_id < N); // leave room for two fresh indices within M
    let r = {
        let b = ent.build_entity();
        b.entity
    };
    let post: View<M> = view(&ent);
    assert!(r.gen().id() == mag(&slot_of(&pre, r.id())) + 1, "C01: builder generation not new");
    assert!(ent.is_alive(r), "C02: dropped builder's entity must stay alive until maintain");
    assert!(slot_of(&post, r.id()).killed, "C02: dropped builder did not request deletion");
    assert!(inv(&post, false), "invariant broken by dropped builder");
    // a finished builder leaves the entity alive and not pending
    let r2 = ent.build_entity().build();
    let post2: View<M> = view(&ent);
    assert!(r2 != r && r2.id() != r.id(), "C01: second builder collides");
    assert!(ent.is_alive(r2) && !slot_of(&post2, r2.id()).killed, "C02: built entity not alive");
    assert!(inv(&post2, false), "invariant broken by builder");
    if recycle {
        assert!(inv(&post2, true), "C17: recycle invariant broken by builder");
    }
    witness!(true, "builder: reached end");
    std::mem::forget(ent);
}

pub const BATCH: usize = 3;

/// Immediate batch deletion of `n` handles on the concrete indices `ids`
/// (generations symbolic, so equal indices may or may not be equal handles).
fn step_kill_body<const N: usize, const M: usize>(recycle: bool, n: usize, ids: [usize; BATCH], fix: Fix) {
    let (mut ent, pre) = any_allocator_fix::<N, M>(recycle, fix);
    let batch_full = [
        issued_handle_at(&pre, ids[0]),
        issued_handle_at(&pre, ids[1]),
        issued_handle_at(&pre, ids[2]),
    ];
    // expected: sequentially, the first position whose handle is dead (or was
    // killed earlier in this batch)
    let mut fail: Option<usize> = None;
    for p in 0..BATCH {
        if p < n && fail.is_none() {
            let mut dead = !ent.is_alive(batch_full[p]);
            for q in 0..BATCH {
                if q < p && batch_full[q] == batch_full[p] {
                    dead = true;
                }
            }
            if dead {
                fail = Some(p);
            }
        }
    }
    let upto = fail.unwrap_or(n);
    let res = ent.verif_kill(&batch_full[..n]);
    let post: View<M> = view(&ent);
    match res {
        Ok(()) => assert!(fail.is_none(), "C02: batch with a dead handle reported success"),
        Err((WrongGeneration { entity, .. }, pos)) => {
            assert!(fail == Some(pos), "C02: batch reported the wrong position");
            let mut named = false;
            for p in 0..BATCH {
                if p == pos && batch_full[p] == entity {
                    named = true;
                }
            }
            assert!(named, "C02: error names another entity");
        }
    }
    // exactly the prefix is dead now, everything else as before
    for p in 0..BATCH {
        if p < upto {
            assert!(!ent.is_alive(batch_full[p]), "C02: handle before the failing position still alive");
        }
    }
    for i in 0..M {
        assert!(mag(&post.slots[i]) >= mag(&pre.slots[i]), "C01: generation went backwards");
        let mut hit = false;
        for p in 0..BATCH {
            if p < upto && ids[p] == i {
                hit = true;
            }
        }
        if hit {
            assert!(
                !occupied(&post.slots[i]) && !post.slots[i].killed,
                "C02: killed index still occupied or pending"
            );
            assert!(mag(&post.slots[i]) == mag(&pre.slots[i]), "C01: deletion issued a generation");
        } else {
            assert!(
                post.slots[i].g == pre.slots[i].g
                    && post.slots[i].alive == pre.slots[i].alive
                    && post.slots[i].raised == pre.slots[i].raised
                    && post.slots[i].killed == pre.slots[i].killed,
                "C02: batch delete touched an index outside the prefix"
            );
        }
    }
    assert!(post.max_id == pre.max_id, "batch delete changed max_id");
    witness!(true, "kill: reached end");
    assert!(inv(&post, false), "invariant broken by batch delete");
    if recycle {
        assert!(inv(&post, true), "C17: recycle invariant broken by batch delete (dead index not on the free list)");
    }
    std::mem::forget(ent);
}

/// `maintain` with the deferred sets fixed per variant (`raised`/`killed`
/// membership concrete, everything else symbolic).
fn step_merge_body<const N: usize, const M: usize>(recycle: bool, fix: Fix) {
    let (mut ent, pre) = any_allocator_fix::<N, M>(recycle, fix);
    let deleted = ent.verif_merge();
    let post: View<M> = view(&ent);
    let mut expect = 0usize;
    for i in 0..M {
        let p = pre.slots[i];
        let q = post.slots[i];
        assert!(mag(&q) == mag(&p), "C01: maintain changed the newest generation of an index");
        assert!(!q.raised && !q.killed, "C02: maintain left deferred work behind");
        // deferred creations become persistent, deferred deletions take effect,
        // nothing else changes
        assert!(q.alive == (occupied(&p) && !p.killed), "C02: wrong alive set after maintain");
        if q.alive {
            assert!(q.g == mag(&p), "C02: entity changed its handle across maintain");
        }
        if p.killed {
            // reported in ascending order with the handle that was alive
            assert!(expect < deleted.len(), "C02: maintain under-reported deletions");
            let d = deleted[expect];
            assert!(d.id() as usize == i, "C02: maintain reported deletions out of order");
            assert!(d.gen().id() == mag(&p), "C02: maintain reported a wrong handle");
            expect += 1;
        }
    }
    assert!(deleted.len() == expect, "C02: maintain over-reported deletions");
    assert!(post.max_id == pre.max_id, "maintain changed max_id");
    witness!(true, "merge: reached end");
    assert!(inv(&post, false), "invariant broken by maintain");
    if recycle {
        assert!(inv(&post, true), "C17: recycle invariant broken by maintain");
    }
    std::mem::forget(ent);
    std::mem::forget(deleted);
}

/// Iterating the entities resource yields exactly the entities currently
/// alive, ascending, each with its current handle (any state satisfying inv).
fn join_state_body<const N: usize, const M: usize>() {
    let (ent, pre) = any_allocator_fix::<N, M>(false, FREE_SYM);
    let mut next = 0usize;
    let mut count = 0usize;
    for e in (&ent).join() {
        let id = e.id() as usize;
        assert!(id < N, "C02: join yielded an unused index");
        // every occupied index between the previous item and this one was yielded
        for i in 0..N {
            if i >= next && i < id {
                assert!(!occupied(&pre.slots[i]), "C02: join skipped a live entity");
            }
        }
        assert!(id >= next, "C02: join not ascending / repeated");
        let s = slot_of(&pre, e.id());
        assert!(occupied(&s), "C02: join yielded a dead index");
        assert!(ent.is_alive(e), "C02: join yielded a handle that is not alive");
        assert!(e.gen().id() == mag(&s), "C02: join yielded a stale handle");
        next = id + 1;
        count += 1;
    }
    for i in 0..N {
        if i >= next {
            assert!(!occupied(&pre.slots[i]), "C02: join stopped before a live entity");
        }
    }
    witness!(count == N, "join: all indices live");
    witness!(count == 0, "join: none");
    witness!(pre.slots[2].raised && count >= 1, "join: includes an entity awaiting maintain");
    std::mem::forget(ent);
}

pub mod hist;
pub mod det;
include!("variants.rs");
