//! C20 (allocator part): two allocators built from the same state and driven
//! through the same operation produce identical handles, results, join orders
//! and states. CBMC leaves allocation addresses and uninitialised memory
//! unconstrained and independent per instance, so anything observable that
//! depended on an address or on a never-written slot would differ between the
//! twins.

use super::*;

fn twins<const N: usize, const M: usize>(fix: Fix) -> (EntitiesRes, EntitiesRes, View<M>) {
    let parts = any_parts::<N, M>(fix);
    let a = parts.build();
    let b = parts.build();
    let v: View<M> = view(&a);
    nd::assume(inv(&v, false));
    for i in 0..N {
        nd::assume(v.slots[i].g > -(i32::MAX - 4) && v.slots[i].g < i32::MAX - 4);
    }
    (a, b, v)
}

fn same_join(a: &EntitiesRes, b: &EntitiesRes) {
    let mut ja = a.join();
    let mut jb = b.join();
    loop {
        let (x, y) = (ja.next(), jb.next());
        assert!(x == y, "C20: join order over the entities resource differs between two identical worlds");
        if x.is_none() {
            break;
        }
    }
}

pub fn det_create<const N: usize, const M: usize>(fix: Fix, atomic: bool) {
    let (mut a, mut b, _pre) = twins::<N, M>(fix);
    let (x, y) = if atomic { (a.create(), b.create()) } else { (a.verif_allocate(), b.verif_allocate()) };
    assert!(x == y, "C20: the same creation returned different handles in two identical worlds");
    let (va, vb): (View<M>, View<M>) = (view(&a), view(&b));
    assert!(same(&va, &vb), "C20: allocator states diverged");
    same_join(&a, &b);
    witness!(true, "det: reached end");
    std::mem::forget(a);
    std::mem::forget(b);
}

pub fn det_kill<const N: usize, const M: usize>(fix: Fix) {
    let (mut a, mut b, pre) = twins::<N, M>(fix);
    let batch = [issued_handle_at(&pre, 0), issued_handle_at(&pre, 1), issued_handle_at(&pre, 0)];
    let n = nd::below(4) as usize;
    let (ra, rb) = (a.verif_kill(&batch[..n]), b.verif_kill(&batch[..n]));
    match (&ra, &rb) {
        (Ok(()), Ok(())) => {}
        (Err((ea, pa)), Err((eb, pb))) => {
            assert!(pa == pb && ea == eb, "C20: the same failing batch reported different errors in two identical worlds");
        }
        _ => assert!(false, "C20: the same batch deletion succeeded in one world and failed in the other"),
    }
    let (va, vb): (View<M>, View<M>) = (view(&a), view(&b));
    assert!(same(&va, &vb), "C20: allocator states diverged");
    let d = a.delete(batch[1]).is_ok();
    assert!(d == b.delete(batch[1]).is_ok(), "C20: the same deferred deletion differs between two identical worlds");
    witness!(ra.is_err(), "det: failing batch");
    std::mem::forget((a, b, ra, rb));
}

pub fn det_merge<const N: usize, const M: usize>(fix: Fix) {
    let (mut a, mut b, _pre) = twins::<N, M>(fix);
    let (da, db) = (a.verif_merge(), b.verif_merge());
    assert!(da.len() == db.len(), "C20: maintain reported different deletions in two identical worlds");
    for k in 0..N {
        if k < da.len() {
            assert!(da[k] == db[k], "C20: maintain reported different deletions in two identical worlds");
        }
    }
    let (va, vb): (View<M>, View<M>) = (view(&a), view(&b));
    assert!(same(&va, &vb), "C20: allocator states diverged");
    same_join(&a, &b);
    witness!(da.len() >= 1, "det: maintain with deletions");
    std::mem::forget((a, b, da, db));
}
