fn main() {
    vsupport::replay_main(h_alloc::REGISTRY)
}
