//! NATIVE VALIDATION ONLY (see the end of this file).
//! Bounded histories from the EMPTY allocator against a reference model that
//! only knows the documented timeline (never looks at allocator internals
//! except to re-check `inv`, which shows the step proofs' invariant is not
//! stronger than what real histories produce).

use super::*;

#[derive(Clone, Copy, PartialEq, Eq, Debug)]
pub enum St {
    Alive,
    Pending,
    Dead,
}

pub struct Model<const K: usize> {
    pub h: [Option<Entity>; K],
    pub st: [St; K],
    pub n: usize,
    /// largest number of entities simultaneously not yet dead so far
    pub peak: usize,
}

impl<const K: usize> Model<K> {
    fn new() -> Self {
        Model {
            h: [None; K],
            st: [St::Dead; K],
            n: 0,
            peak: 0,
        }
    }

    fn live_count(&self) -> usize {
        let mut c = 0;
        for i in 0..K {
            if i < self.n && self.st[i] != St::Dead {
                c += 1;
            }
        }
        c
    }

    /// Records a freshly created entity; checks C01 and C17 on it.
    fn created(&mut self, e: Entity, c17: bool) {
        for i in 0..K {
            if i < self.n {
                let old = self.h[i].unwrap();
                assert!(old != e, "C01: creation returned a handle that was returned before");
                if self.st[i] != St::Dead {
                    assert!(old.id() != e.id(), "C01: two entities that are not yet dead share an index");
                }
            }
        }
        // place it (n < K is guaranteed by the caller)
        for i in 0..K {
            if i == self.n {
                self.h[i] = Some(e);
                self.st[i] = St::Alive;
            }
        }
        self.n += 1;
        let live = self.live_count();
        if live > self.peak {
            self.peak = live;
        }
        if c17 {
            assert!((e.id() as usize) < self.peak, "C17: index not below the peak number of simultaneously live entities");
        }
    }

    fn pick(&self) -> usize {
        nd::assume(self.n > 0);
        let k = nd::below(self.n as u8) as usize;
        nd::assume(k < self.n);
        k
    }

    fn handle(&self, k: usize) -> Entity {
        let mut r = None;
        for i in 0..K {
            if i == k {
                r = self.h[i];
            }
        }
        r.unwrap()
    }

    fn status(&self, k: usize) -> St {
        let mut r = St::Dead;
        for i in 0..K {
            if i == k {
                r = self.st[i];
            }
        }
        r
    }

    fn set_status(&mut self, k: usize, s: St) {
        for i in 0..K {
            if i == k {
                self.st[i] = s;
            }
        }
    }
}

/// After every step: every handle ever returned is alive exactly when the
/// timeline says so.
fn check_alive<const K: usize>(ent: &EntitiesRes, m: &Model<K>) {
    for i in 0..K {
        if i < m.n {
            let e = m.h[i].unwrap();
            assert!(ent.is_alive(e) == (m.st[i] != St::Dead), "C02: aliveness differs from the create/delete/maintain timeline");
        }
    }
}

/// At the end of the history: the join yields exactly the live entities,
/// ascending, each with its current handle; the step invariant holds.
fn check_end<const K: usize>(ent: &EntitiesRes, m: &Model<K>, c17: bool) {
    let mut last: Option<Index> = None;
    let mut yielded = 0usize;
    for e in ent.join() {
        if let Some(l) = last {
            assert!(e.id() > l, "C02: join not in ascending order");
        }
        last = Some(e.id());
        let mut found = false;
        for i in 0..K {
            if i < m.n && m.h[i] == Some(e) {
                assert!(m.st[i] != St::Dead, "C02: join yielded a dead entity");
                found = true;
            }
        }
        assert!(found, "C02: join yielded a handle that was never returned or is stale");
        yielded += 1;
    }
    assert!(yielded == m.live_count(), "C02: join missed a live entity");
    let v: View<K> = view(ent);
    assert!(inv(&v, false), "history left the step invariant");
    if c17 {
        assert!(inv(&v, true), "C17: history left the recycle invariant");
    }
}

pub fn history<const K: usize>(c17: bool) {
    let mut ent = EntitiesRes::default();
    let mut m: Model<K> = Model::new();
    let mut merges = 0u8;
    let mut reused = false;
    let mut failed_batch = false;
    for _step in 0..K {
        let op = nd::below(6);
        match op {
            0 => {
                let e = ent.verif_allocate();
                reused |= e.gen().id() > 1;
                m.created(e, c17);
            }
            1 => {
                let e = ent.create();
                reused |= e.gen().id() > 1;
                m.created(e, c17);
            }
            2 => {
                // unfinished builder dropped: created, deletion requested
                let e = {
                    let b = ent.build_entity();
                    b.entity
                };
                m.created(e, c17);
                let k = m.n - 1;
                m.set_status(k, St::Pending);
            }
            3 => {
                let k = m.pick();
                let e = m.handle(k);
                let st = m.status(k);
                match ent.delete(e) {
                    Ok(()) => {
                        assert!(st != St::Dead, "C02: deferred delete of a dead handle succeeded");
                        m.set_status(k, St::Pending);
                    }
                    Err(WrongGeneration { entity, .. }) => {
                        assert!(st == St::Dead, "C02: deferred delete of a live handle failed");
                        assert!(entity == e);
                    }
                }
            }
            4 => {
                // immediate batch deletion of two handles (possibly the same)
                let k0 = m.pick();
                let k1 = m.pick();
                let batch = [m.handle(k0), m.handle(k1)];
                let s0 = m.status(k0);
                let s1 = if k1 == k0 { St::Dead } else { m.status(k1) };
                let expect_fail = if s0 == St::Dead {
                    Some(0)
                } else if s1 == St::Dead {
                    Some(1)
                } else {
                    None
                };
                match ent.verif_kill(&batch) {
                    Ok(()) => assert!(expect_fail.is_none(), "C02: batch with a dead handle reported success"),
                    Err((_, pos)) => {
                        assert!(expect_fail == Some(pos), "C02: batch reported the wrong position");
                        failed_batch |= pos == 1;
                    }
                }
                if expect_fail != Some(0) {
                    m.set_status(k0, St::Dead);
                    if expect_fail.is_none() {
                        m.set_status(k1, St::Dead);
                    }
                }
            }
            _ => {
                let deleted = ent.verif_merge();
                let mut cnt = 0usize;
                for i in 0..K {
                    if i < m.n && m.st[i] == St::Pending {
                        m.st[i] = St::Dead;
                        cnt += 1;
                        let mut reported = false;
                        for d in deleted.iter() {
                            if Some(*d) == m.h[i] {
                                reported = true;
                            }
                        }
                        assert!(reported, "C02: maintain did not report a deletion that took effect");
                    }
                }
                assert!(deleted.len() == cnt, "C02: maintain reported an entity that was not pending");
                merges += 1;
                std::mem::forget(deleted);
            }
        }
        check_alive(&ent, &m);
        check_end(&ent, &m, c17);
    }
    witness!(m.n == K, "hist: K creations");
    witness!(reused, "hist: an index was reused");
    witness!(merges >= 2, "hist: two maintains");
    witness!(failed_batch, "hist: a batch failed part-way");
    witness!(failed_batch && reused, "hist: creation after a batch failed part-way");
    std::mem::forget(ent);
}

// Native-only (not Kani harnesses): symbolic histories from the empty
// allocator do not finish in CBMC (the vectors' lengths become symbolic and
// every `resize` then costs minutes; K = 2 did not finish in 10 min). They are
// run natively with pseudo-random draws to validate that `inv` is not stronger
// than what real histories produce and that the reference model agrees with
// the real allocator over long histories. This is assumption validation, not
// the deciding step of any check.
pub fn n_hist() {
    history::<12>(false)
}
pub fn n_c17_hist() {
    history::<12>(true)
}
