//! C20 (storage part): two storages filled by the same recipe and driven
//! through the same operation produce identical results, lookups, masks,
//! slice views (incl. the ORDER of the dense slice) and event streams.
//! CBMC leaves addresses and never-written memory unconstrained and
//! independent per instance, so an observable that depended on either differs
//! between the twins.

use crate::mapstep::{Kind, St};
use crate::*;
use specs::storage::{AccessMut, ComponentEvent, StorageEntry, Tracked};
use std::mem::forget;

pub struct Recipe {
    vals: [u8; NI],
    removed: [bool; NI],
    x: u8,
    op: u8,
}

fn fill<T: Kind>(masked: &mut MaskedStorage<T>, ids: [Index; NI], order: [usize; NI], r: &Recipe) {
    let (ent0, es) = all_alive(ids);
    let env0 = Env::new(ent0);
    {
        let mut s: St<'_, T> = Storage::new(env0.fetch(), masked);
        for k in 0..NI {
            let i = order[k];
            let res = s.insert(es[i], T::mk(r.vals[i]));
            forget(res);
        }
        for k in 0..NI {
            let i = order[NI - 1 - k];
            if r.removed[i] {
                let res = s.remove(es[i]);
                forget(res);
            }
        }
        forget(s);
    }
    forget(env0);
}

fn enc(o: Option<u8>) -> u32 {
    match o {
        Some(v) => 0x100 | v as u32,
        None => 0,
    }
}

/// Applies the operation; returns its result encoded.
fn apply<T: Kind>(s: &mut St<'_, T>, op: u8, h: Entity, x: u8) -> u32 {
    match op {
        0 => match s.insert(h, T::mk(x)) {
            Ok(old) => {
                let e = enc(old.as_ref().map(|c| c.val()));
                forget(old);
                e
            }
            Err(e) => {
                forget(e);
                0xdead
            }
        },
        1 => enc(s.get(h).map(|c| c.val())),
        2 => match s.get_mut(h) {
            Some(mut a) => {
                let e = enc(Some(a.val()));
                a.access_mut().set(x);
                e
            }
            None => 0,
        },
        3 => {
            let r = s.remove(h);
            let e = enc(r.as_ref().map(|c| c.val()));
            forget(r);
            e
        }
        4 => match s.entry(h) {
            Ok(StorageEntry::Occupied(o)) => {
                let v = o.remove();
                let e = enc(Some(v.val()));
                forget(v);
                e
            }
            Ok(StorageEntry::Vacant(v)) => {
                let a = v.insert(T::mk(x));
                0x200 | a.val() as u32
            }
            Err(e) => {
                forget(e);
                0xdead
            }
        },
        _ => {
            // drain: the sequence of drained values, folded in order
            let mut acc = 1u32;
            for c in s.drain().join() {
                acc = acc.wrapping_mul(257).wrapping_add(c.val() as u32);
                forget(c);
            }
            acc
        }
    }
}

pub trait Observe: Kind {
    /// everything observable, incl. slice views in their own order
    fn observe(s: &St<'_, Self>, ids: [Index; NI], cur: &[Option<Entity>; NI]) -> [u32; 12];
}

fn base<T: Kind>(s: &St<'_, T>, ids: [Index; NI], cur: &[Option<Entity>; NI], out: &mut [u32; 12]) {
    for i in 0..NI {
        out[i] = if s.mask().contains(ids[i]) { 1 } else { 0 };
        if let Some(e) = cur[i] {
            out[3 + i] = enc(s.get(e).map(|c| c.val()));
        }
    }
    out[6] = s.count() as u32;
    // join order
    let mut acc = 1u32;
    for c in s.join() {
        acc = acc.wrapping_mul(257).wrapping_add(c.val() as u32);
    }
    out[7] = acc;
}

impl Observe for CVec {
    fn observe(s: &St<'_, Self>, ids: [Index; NI], cur: &[Option<Entity>; NI]) -> [u32; 12] {
        let mut out = [0u32; 12];
        base(s, ids, cur, &mut out);
        out[8] = s.as_slice().len() as u32;
        out
    }
}
impl Observe for CDense {
    fn observe(s: &St<'_, Self>, ids: [Index; NI], cur: &[Option<Entity>; NI]) -> [u32; 12] {
        let mut out = [0u32; 12];
        base(s, ids, cur, &mut out);
        let sl = s.as_slice();
        out[8] = sl.len() as u32;
        for j in 0..NI {
            if j < sl.len() {
                out[9 + j] = 0x100 | sl[j].0 as u32;
            }
        }
        out
    }
}
impl Observe for CDefault {
    fn observe(s: &St<'_, Self>, ids: [Index; NI], cur: &[Option<Entity>; NI]) -> [u32; 12] {
        let mut out = [0u32; 12];
        base(s, ids, cur, &mut out);
        let sl = s.as_slice();
        out[8] = sl.len() as u32;
        for j in 0..NI {
            if j < sl.len() {
                out[9 + j] = 0x100 | sl[j].0 as u32;
            }
        }
        out
    }
}
impl Observe for CHash {
    fn observe(s: &St<'_, Self>, ids: [Index; NI], cur: &[Option<Entity>; NI]) -> [u32; 12] {
        let mut out = [0u32; 12];
        base(s, ids, cur, &mut out);
        out
    }
}
impl Observe for CFlagDense {
    fn observe(s: &St<'_, Self>, ids: [Index; NI], cur: &[Option<Entity>; NI]) -> [u32; 12] {
        let mut out = [0u32; 12];
        base(s, ids, cur, &mut out);
        out
    }
}

fn current_handles(ids: [Index; NI], st: &[IdxState; NI]) -> [Option<Entity>; NI] {
    let mut cur = [None; NI];
    for i in 0..NI {
        if let Some(g) = st[i].current() {
            cur[i] = Some(Entity::verif_new(ids[i], g));
        }
    }
    cur
}

pub fn det_step<T: Observe>(ids: [Index; NI], order: [usize; NI], t: usize, ops: (u8, u8))
where
    T::Storage: Default,
{
    let mut r = Recipe { vals: [0; NI], removed: [false; NI], x: nd::u8(), op: ops.0 + nd::below(ops.1 - ops.0 + 1) };
    for i in 0..NI {
        r.vals[i] = nd::u8();
        r.removed[i] = nd::bool();
    }
    let mut m1 = MaskedStorage::<T>::new(Default::default());
    let mut m2 = MaskedStorage::<T>::new(Default::default());
    fill::<T>(&mut m1, ids, order, &r);
    fill::<T>(&mut m2, ids, order, &r);
    // all entities alive: determinism of the storage does not depend on the allocator state
    let (ent, es) = all_alive(ids);
    let env = Env::new(ent);
    let h = es[t];
    let cur = [Some(es[0]), Some(es[1]), Some(es[2])];
    let mut s1: St<'_, T> = Storage::new(env.fetch(), &mut m1);
    let mut s2: St<'_, T> = Storage::new(env.fetch(), &mut m2);
    let (r1, r2) = (apply::<T>(&mut s1, r.op, h, r.x), apply::<T>(&mut s2, r.op, h, r.x));
    assert!(r1 == r2, "C20: the same operation returned different results in two identical worlds");
    let (o1, o2) = (T::observe(&s1, ids, &cur), T::observe(&s2, ids, &cur));
    // 12 observations, compared in chunks of 4 (keeps every loop within the unwinding bound)
    for c in 0..3 {
        for j in 0..4 {
            let k = c * 4 + j;
            assert!(o1[k] == o2[k], "C20: lookups, masks, join order or slice views differ between two identical worlds");
        }
    }
    witness!(r1 != 0, "det: an operation that returned something");
    forget((s1, s2));
    forget((m1, m2));
    forget(env);
}

/// Event streams of two identical change-tracking storages are identical.
pub fn det_events(ids: [Index; NI], order: [usize; NI], t: usize) {
    type T = CFlagDense;
    let mut r = Recipe { vals: [0; NI], removed: [false; NI], x: nd::u8(), op: nd::below(5) };
    for i in 0..NI {
        r.vals[i] = nd::u8();
        r.removed[i] = nd::bool();
    }
    let mut m1 = MaskedStorage::<T>::new(Default::default());
    let mut m2 = MaskedStorage::<T>::new(Default::default());
    fill::<T>(&mut m1, ids, order, &r);
    fill::<T>(&mut m2, ids, order, &r);
    let (ent, es) = all_alive(ids);
    let env = Env::new(ent);
    let h = es[t];
    let mut s1: St<'_, T> = Storage::new(env.fetch(), &mut m1);
    let mut s2: St<'_, T> = Storage::new(env.fetch(), &mut m2);
    let (mut rd1, mut rd2) = (s1.register_reader(), s2.register_reader());
    let (r1, r2) = (apply::<T>(&mut s1, r.op, h, r.x), apply::<T>(&mut s2, r.op, h, r.x));
    assert!(r1 == r2, "C20: the same operation returned different results in two identical worlds");
    let fp = |ev: &ComponentEvent| match *ev {
        ComponentEvent::Inserted(i) => 0x1000 | i,
        ComponentEvent::Modified(i) => 0x2000 | i,
        ComponentEvent::Removed(i) => 0x3000 | i,
    };
    let (mut a1, mut a2) = (1u32, 1u32);
    for ev in s1.channel().read(&mut rd1) {
        a1 = a1.wrapping_mul(65537).wrapping_add(fp(ev));
    }
    for ev in s2.channel().read(&mut rd2) {
        a2 = a2.wrapping_mul(65537).wrapping_add(fp(ev));
    }
    assert!(a1 == a2, "C20: event streams differ between two identical worlds");
    witness!(a1 != 1, "det: at least one event");
    forget((rd1, rd2));
    forget((s1, s2));
    forget((m1, m2));
    forget(env);
}
