//! `map_step`: one symbolic operation on an arbitrary storage content.

use crate::*;
use specs::storage::{AccessMut, SliceAccess, StorageEntry};
use std::mem::forget;

pub type St<'a, T> = Storage<'a, T, &'a mut MaskedStorage<T>>;
pub type Model = [Option<u8>; NI];

/// Storage-kind specific observations (slice views).
pub trait Kind: Val {
    /// value as the map sees it (`NullStorage` components carry no data)
    fn norm(v: u8) -> u8 {
        v
    }
    fn check_slices(_s: &St<'_, Self>, _m: &Model, _ids: [Index; NI]) {}
}

impl Kind for CBTree {}
impl Kind for CHash {}
impl Kind for CNull {
    fn norm(_: u8) -> u8 {
        0
    }
}
impl Kind for CVec {
    fn check_slices(s: &St<'_, Self>, m: &Model, ids: [Index; NI]) {
        let sl = s.as_slice();
        for i in 0..NI {
            if let Some(v) = m[i] {
                assert!((ids[i] as usize) < sl.len(), "C04: vector slice shorter than an occupied index");
                // SAFETY: occupied slots are initialised (that is the claim being checked)
                let c = unsafe { sl[ids[i] as usize].assume_init_ref() };
                assert!(c.0 == v, "C04: vector slice does not hold the component at an occupied index");
            }
        }
    }
}
impl Kind for CDefault {
    fn check_slices(s: &St<'_, Self>, m: &Model, ids: [Index; NI]) {
        let sl = s.as_slice();
        for i in 0..NI {
            let at = ids[i] as usize;
            match m[i] {
                Some(v) => {
                    assert!(at < sl.len(), "C04: default-vector slice shorter than an occupied index");
                    assert!(sl[at].0 == v, "C04: default-vector slice does not hold the component at an occupied index");
                }
                None => {
                    if at < sl.len() {
                        assert!(sl[at].0 == 0, "C04: default-vector slice holds a non-default value at an unoccupied index");
                    }
                }
            }
        }
    }
}
fn dense_perm(sl: &[u8; NI], len: usize, m: &Model) {
    let mut cnt = 0;
    for i in 0..NI {
        if let Some(v) = m[i] {
            cnt += 1;
            let (mut in_model, mut in_slice) = (0, 0);
            for j in 0..NI {
                if m[j] == Some(v) {
                    in_model += 1;
                }
                if j < len && sl[j] == v {
                    in_slice += 1;
                }
            }
            assert!(in_model == in_slice, "C04: dense slice is not a permutation of the stored values");
        }
    }
    assert!(len == cnt, "C04: dense slice length differs from the number of components");
}
impl Kind for CDense {
    fn check_slices(s: &St<'_, Self>, m: &Model, _ids: [Index; NI]) {
        let sl = s.as_slice();
        assert!(sl.len() <= NI, "C04: dense slice longer than the number of components");
        let mut a = [0u8; NI];
        for j in 0..NI {
            if j < sl.len() {
                a[j] = sl[j].0;
            }
        }
        dense_perm(&a, sl.len(), m);
    }
}
// the change-tracking wrappers delegate storage to their inner kind; the
// wrappers do not expose slices
impl Kind for CFlagVec {}
impl Kind for CFlagDense {}
impl Kind for CDerefVec {}
impl Kind for CDerefDense {}

/// Fills a fresh storage with an arbitrary content over `ids`: every index is
/// inserted (so every vector reaches its final, concrete length) and then an
/// arbitrary subset is removed again.
pub fn any_content<T: Kind>(masked: &mut MaskedStorage<T>, ids: [Index; NI], order: [usize; NI]) -> Model {
    let (ent0, es) = all_alive(ids);
    let env0 = Env::new(ent0);
    let mut model: Model = [None; NI];
    {
        let mut s: St<'_, T> = Storage::new(env0.fetch(), masked);
        // insertion order is fixed per harness variant (it shapes the dense
        // storage's permutation and the association list of the hash map model)
        for k in 0..NI {
            let i = order[k];
            let v = nd::u8();
            let r = s.insert(es[i], T::mk(v));
            assert!(r.is_ok(), "setup insert refused");
            forget(r);
            model[i] = Some(T::norm(v));
        }
        for k in 0..NI {
            let i = order[NI - 1 - k];
            if nd::bool() {
                let r = s.remove(es[i]);
                assert!(r.is_some(), "setup remove failed");
                forget(r);
                model[i] = None;
            }
        }
    }
    forget(env0);
    model
}

/// Compares everything observable through the `Storage` API with the model.
pub fn check_state<T: Kind>(s: &St<'_, T>, m: &Model, ids: [Index; NI], st: &[IdxState; NI]) {
    let mut cnt = 0usize;
    for i in 0..NI {
        if m[i].is_some() {
            cnt += 1;
        }
        assert!(s.mask().contains(ids[i]) == m[i].is_some(), "C04: membership mask differs from the map");
        if let Some(g) = st[i].current() {
            let cur = Entity::verif_new(ids[i], g);
            let got = s.get(cur).map(|c| c.val());
            assert!(got == m[i], "C04: lookup differs from the map");
            assert!(s.contains(cur) == m[i].is_some(), "C04: contains differs from the map");
        }
    }
    assert!(s.count() == cnt, "C04: count differs from the map");
    assert!(s.is_empty() == (cnt == 0), "C04: emptiness differs from the map");
    T::check_slices(s, m, ids);
}

pub const NOPS: u8 = 11;

/// ONE operation (`op` symbolic unless fixed) on target index `ids[t]`.
pub fn map_step<T: Kind>(ids: [Index; NI], order: [usize; NI], t: usize, ops: (u8, u8))
where
    T::Storage: Default,
{
    let mut masked = MaskedStorage::<T>::new(Default::default());
    let mut m = any_content::<T>(&mut masked, ids, order);
    let (ent, st) = any_entities(ids);
    let env = Env::new(ent);
    let (h, live) = any_handle(ids, &st, t);
    let x = nd::u8();
    let xn = T::norm(x);
    // the operation kind is symbolic within the group `ops.0 ..= ops.1`
    let op = if ops.0 == ops.1 {
        ops.0
    } else {
        ops.0 + nd::below(ops.1 - ops.0 + 1)
    };
    let before = m;
    {
        let mut s: St<'_, T> = Storage::new(env.fetch(), &mut masked);
        match op {
            0 => {
                let r = s.insert(h, T::mk(x));
                match &r {
                    Ok(old) => {
                        assert!(live, "C03: insert through a dead handle was accepted");
                        assert!(old.as_ref().map(|c| c.val()) == m[t], "C04: insert returned the wrong previous value");
                        m[t] = Some(xn);
                    }
                    Err(_) => assert!(!live, "C04: insert for a live entity was refused"),
                }
                forget(r);
            }
            1 => {
                let got = s.get(h).map(|c| c.val());
                if live {
                    assert!(got == m[t], "C04: get differs from the map");
                } else {
                    assert!(got.is_none(), "C03: get through a dead handle returned a component");
                }
            }
            2 => {
                match s.get_mut(h) {
                    Some(mut a) => {
                        assert!(live, "C03: get_mut through a dead handle returned a component");
                        assert!(Some(a.val()) == m[t], "C04: get_mut differs from the map");
                        a.access_mut().set(x);
                        m[t] = Some(xn);
                    }
                    None => assert!(!live || m[t].is_none(), "C04: get_mut missed a stored component"),
                }
            }
            3 => {
                let r = s.remove(h);
                let got = r.as_ref().map(|c| c.val());
                if live {
                    assert!(got == m[t], "C04: remove returned the wrong value");
                    m[t] = None;
                } else {
                    assert!(got.is_none(), "C03: remove through a dead handle returned a component");
                }
                forget(r);
            }
            4 => {
                let c = s.contains(h);
                assert!(c == (live && m[t].is_some()), "C03/C04: contains is wrong (must be false for a dead handle)");
            }
            5 => match s.entry(h) {
                Ok(e) => {
                    assert!(live, "C03: entry through a dead handle was granted");
                    let a = e.or_insert(T::mk(x));
                    let want = m[t].unwrap_or(xn);
                    assert!(a.val() == want, "C04: entry.or_insert returned the wrong component");
                    m[t] = Some(want);
                }
                Err(_) => assert!(!live, "C04: entry for a live entity was refused"),
            },
            6 => match s.entry(h) {
                Ok(e) => {
                    assert!(live, "C03: entry through a dead handle was granted");
                    let old = e.replace(T::mk(x));
                    assert!(old.as_ref().map(|c| c.val()) == m[t], "C04: entry.replace returned the wrong previous value");
                    forget(old);
                    m[t] = Some(xn);
                }
                Err(_) => assert!(!live, "C04: entry for a live entity was refused"),
            },
            7 => match s.entry(h) {
                Ok(StorageEntry::Occupied(o)) => {
                    assert!(live, "C03: entry through a dead handle was granted");
                    assert!(Some(o.get().val()) == m[t], "C04: occupied entry holds the wrong component");
                    let old = o.remove();
                    assert!(Some(old.val()) == m[t], "C04: entry removal returned the wrong value");
                    forget(old);
                    m[t] = None;
                }
                Ok(StorageEntry::Vacant(v)) => {
                    assert!(live, "C03: entry through a dead handle was granted");
                    assert!(m[t].is_none(), "C04: vacant entry for a stored component");
                    let a = v.insert(T::mk(x));
                    assert!(a.val() == xn, "C04: vacant insert returned the wrong component");
                    m[t] = Some(xn);
                }
                Err(_) => assert!(!live, "C04: entry for a live entity was refused"),
            },
            8 => match s.entry(h) {
                Ok(StorageEntry::Occupied(mut o)) => {
                    assert!(live, "C03: entry through a dead handle was granted");
                    let old = o.insert(T::mk(x));
                    assert!(Some(old.val()) == m[t], "C04: occupied insert returned the wrong previous value");
                    forget(old);
                    assert!(o.get_mut().val() == xn, "C04: occupied entry does not hold the new value");
                    m[t] = Some(xn);
                }
                Ok(StorageEntry::Vacant(_)) => {
                    assert!(live, "C03: entry through a dead handle was granted");
                    assert!(m[t].is_none(), "C04: vacant entry for a stored component");
                }
                Err(_) => assert!(!live, "C04: entry for a live entity was refused"),
            },
            9 => {
                // drain: yields every stored value once, in index order, and empties the storage
                let mut next = 0usize;
                for c in s.drain().join() {
                    let mut found = false;
                    for i in 0..NI {
                        if !found && i >= next && m[i].is_some() {
                            assert!(Some(c.val()) == m[i], "C04: drain yielded the wrong value / order");
                            m[i] = None;
                            next = i + 1;
                            found = true;
                        }
                    }
                    assert!(found, "C04: drain yielded more values than stored");
                    forget(c);
                }
                for i in 0..NI {
                    assert!(m[i].is_none(), "C04: drain left a component behind");
                }
            }
            _ => {
                s.clear();
                m = [None; NI];
            }
        }
        if !live && op <= 8 {
            for i in 0..NI {
                assert!(m[i] == before[i], "harness: model changed for a dead handle");
            }
        }
        check_state::<T>(&s, &m, ids, &st);
        witness!(live && before[t].is_some(), "step: live handle, component present");
        witness!(!live && before[t].is_some() && st[t].current().is_some(), "step: stale handle, index reused by a newer entity that has a component");
    }
    forget(masked);
    forget(env);
}

/// `GenericWriteStorage::get_mut_or_default` needs a real `WriteStorage`
/// (`Storage<T, FetchMut<MaskedStorage<T>>>`): under Kani the `FetchMut` comes
/// from the shred model's `verif_from_mut`, natively from a `World` holding the
/// storage.
pub fn or_default_step<T: Kind + Default>(ids: [Index; NI], order: [usize; NI], t: usize)
where
    T::Storage: Default,
{
    use specs::storage::GenericWriteStorage;
    let mut masked = MaskedStorage::<T>::new(Default::default());
    let mut m = any_content::<T>(&mut masked, ids, order);
    let (ent, st) = any_entities(ids);
    let env = Env::new(ent);
    let (h, live) = any_handle(ids, &st, t);
    let x = nd::u8();
    let dflt = T::default().val();
    #[cfg(kani)]
    let mut ws: WriteStorage<'_, T> = Storage::new(env.fetch(), shred::FetchMut::verif_from_mut(&mut masked));
    #[cfg(not(kani))]
    let mut w2 = shred::World::empty();
    #[cfg(not(kani))]
    let mut ws: WriteStorage<'_, T> = {
        w2.insert(masked);
        Storage::new(env.fetch(), w2.fetch_mut())
    };
    match ws.get_mut_or_default(h) {
        Some(mut a) => {
            assert!(live, "C03: get_mut_or_default through a dead handle returned a component");
            let want = m[t].unwrap_or(dflt);
            assert!(a.val() == want, "C04: get_mut_or_default returned the wrong component");
            a.access_mut().set(x);
            m[t] = Some(T::norm(x));
        }
        None => assert!(!live, "C04: get_mut_or_default refused a live entity"),
    }
    for i in 0..NI {
        assert!(ws.mask().contains(ids[i]) == m[i].is_some(), "C04: membership mask differs from the map");
        if let Some(g) = st[i].current() {
            let cur = Entity::verif_new(ids[i], g);
            assert!(ws.get(cur).map(|c| c.val()) == m[i], "C04: lookup differs from the map");
        }
    }
    witness!(live && m[t].is_some(), "or_default: live handle");
    witness!(!live && st[t].current().is_some(), "or_default: stale handle, index reused");
    forget(ws);
    forget(env);
}

/// Two inserts in a given index order into a FRESH storage (values symbolic), then every
/// observable. Small on purpose (seconds): the generic `map_step` covers the same situations from
/// an arbitrary content, but a change that makes vectors grow on every insert (seeded change
/// C04_b) turns those queries into time-outs, i.e. into an inconclusive answer instead of a
/// violation; these stay decidable.
pub fn order_step<T: Kind>(ids: [Index; NI], first: usize, second: usize)
where
    T::Storage: Default,
{
    let mut masked = MaskedStorage::<T>::new(Default::default());
    let (ent, es) = all_alive(ids);
    let env = Env::new(ent);
    let st = [IdxState { g: 1, raised: false }; NI];
    let (a, b) = (nd::u8(), nd::u8());
    let mut m: Model = [None; NI];
    {
        let mut s: St<'_, T> = Storage::new(env.fetch(), &mut masked);
        let r = s.insert(es[first], T::mk(a));
        assert!(matches!(&r, Ok(None)), "C04: insert into an empty storage returned a previous value or was refused");
        forget(r);
        m[first] = Some(T::norm(a));
        check_state(&s, &m, ids, &st);
        let r = s.insert(es[second], T::mk(b));
        assert!(matches!(&r, Ok(None)), "C04: insert for an entity without a component returned a previous value or was refused");
        forget(r);
        m[second] = Some(T::norm(b));
        check_state(&s, &m, ids, &st);
        // overwrite the first one, remove the second one
        let c = nd::u8();
        let r = s.insert(es[first], T::mk(c));
        assert!(matches!(&r, Ok(Some(old)) if old.val() == T::norm(a)), "C04: overwrite returned the wrong previous value");
        forget(r);
        m[first] = Some(T::norm(c));
        let r = s.remove(es[second]);
        assert!(r.as_ref().map(|x| x.val()) == Some(T::norm(b)), "C04: remove returned the wrong value");
        forget(r);
        m[second] = None;
        check_state(&s, &m, ids, &st);
    }
    witness!(true, "order: end reached");
    forget(masked);
    forget(env);
}
