//! C08: every component value is handed back or destroyed exactly once.
//!
//! Components are tokens whose `Drop` bumps a per-token counter. One symbolic
//! operation on an arbitrary content, then the storage itself is dropped (the
//! real `Drop for MaskedStorage` -> `clear` -> `clean`). For every token that
//! was moved into the storage: (times handed back to the caller) + (times
//! destroyed) == 1. A slot read twice, a value destroyed and also returned, a
//! leak, or a never-written slot exposed as a value all break the balance (or
//! hand back a token the oracle does not expect).

use crate::*;
use specs::storage::{AccessMut, BTreeStorage, DefaultVecStorage, HashMapStorage, StorageEntry};
use std::mem::forget;

pub const NTOK: usize = 6;
/// token handed out by `Default` (fillers of the default-filled kind)
pub const FILLER: u8 = 5;

static mut DROPS: [u8; NTOK] = [0; NTOK];
static mut FILLERS_MADE: u8 = 0;

fn drops(t: u8) -> u8 {
    let mut r = 0;
    for k in 0..NTOK {
        if k == t as usize {
            // SAFETY: single-threaded harness
            r = unsafe { DROPS[k] };
        }
    }
    r
}

pub trait Tok: Component + Sized {
    fn mk(t: u8) -> Self;
    fn tok(&self) -> u8;
}

macro_rules! tok {
    ($name:ident, $storage:ty) => {
        #[derive(Debug)]
        pub struct $name(pub u8);
        impl Component for $name {
            type Storage = $storage;
        }
        impl Drop for $name {
            fn drop(&mut self) {
                for k in 0..NTOK {
                    if k == self.0 as usize {
                        // SAFETY: single-threaded harness
                        unsafe { DROPS[k] = DROPS[k].saturating_add(1) };
                    }
                }
            }
        }
        impl Default for $name {
            fn default() -> Self {
                // SAFETY: single-threaded harness
                unsafe { FILLERS_MADE = FILLERS_MADE.saturating_add(1) };
                $name(FILLER)
            }
        }
        impl Tok for $name {
            fn mk(t: u8) -> Self {
                $name(t)
            }
            fn tok(&self) -> u8 {
                self.0
            }
        }
    };
}

tok!(TVec, VecStorage<Self>);
tok!(TDense, DenseVecStorage<Self>);
tok!(TDefault, DefaultVecStorage<Self>);
tok!(TBTree, BTreeStorage<Self>);
tok!(THash, HashMapStorage<Self>);

/// Zero-sized token for `NullStorage`: counted in aggregate.
#[derive(Debug, Default)]
pub struct TNull;
static mut NULL_DROPS: u8 = 0;
impl Component for TNull {
    type Storage = NullStorage<Self>;
}
impl Drop for TNull {
    fn drop(&mut self) {
        // SAFETY: single-threaded harness
        unsafe { NULL_DROPS = NULL_DROPS.saturating_add(1) };
    }
}

type St<'a, T> = Storage<'a, T, &'a mut MaskedStorage<T>>;

/// tokens 0..NI are the initial components of ids[0..NI], token NI is the value
/// the operation brings in.
pub fn drop_step<T: Tok>(ids: [Index; NI], order: [usize; NI], t: usize, ops: (u8, u8))
where
    T::Storage: Default,
{
    // SAFETY: single-threaded harness (reset matters only for repeated native runs)
    unsafe {
        DROPS = [0; NTOK];
        FILLERS_MADE = 0;
    }
    let mut masked = MaskedStorage::<T>::new(Default::default());
    // which tokens are inside the storage / which were handed back to us
    let mut inside = [false; NTOK];
    let mut returned = [0u8; NTOK];
    let mut take_back = |v: T, returned: &mut [u8; NTOK]| {
        let tk = v.tok();
        for k in 0..NTOK {
            if k == tk as usize {
                returned[k] += 1;
            }
        }
        forget(v);
    };
    {
        let (ent0, es) = all_alive(ids);
        let env0 = Env::new(ent0);
        let mut s: St<'_, T> = Storage::new(env0.fetch(), &mut masked);
        for k in 0..NI {
            let i = order[k];
            let r = s.insert(es[i], T::mk(i as u8));
            assert!(r.is_ok(), "setup insert refused");
            forget(r);
            inside[i] = true;
        }
        for k in 0..NI {
            let i = order[NI - 1 - k];
            if nd::bool() {
                if let Some(v) = s.remove(es[i]) {
                    assert!(v.tok() == i as u8, "C08: remove handed back another entity's value");
                    take_back(v, &mut returned);
                    inside[i] = false;
                }
            }
        }
        forget(s);
        forget(env0);
    }
    let present = inside[t];
    // the entities are all alive here: what a dead handle may do is C03's subject, and a
    // concrete allocator keeps these (drop-glue heavy) queries within the quick budget
    let (ent, es) = all_alive(ids);
    let env = Env::new(ent);
    let (h, live) = (es[t], true);
    let op = if ops.0 == ops.1 {
        ops.0
    } else {
        ops.0 + nd::below(ops.1 - ops.0 + 1)
    };
    let new = NI as u8;
    // the operations below create the token `new` exactly when they evaluate T::mk(new)
    let mut created_new = false;
    {
        let mut s: St<'_, T> = Storage::new(env.fetch(), &mut masked);
        match op {
            0 => match { created_new = true; s.insert(h, T::mk(new)) } {
                Ok(old) => {
                    inside[NI] = true;
                    if let Some(v) = old {
                        assert!(present && v.tok() == t as u8, "C08: overwrite handed back a wrong value");
                        take_back(v, &mut returned);
                        inside[t] = false;
                    } else {
                        assert!(!present, "C08: overwrite lost the previous value");
                    }
                }
                Err(e) => {
                    // the refused value is dropped by the error path: it never entered
                    forget(e);
                }
            },
            1 => {
                if let Some(v) = s.remove(h) {
                    assert!(live && present && v.tok() == t as u8, "C08: remove handed back a wrong value");
                    take_back(v, &mut returned);
                    inside[t] = false;
                }
            }
            2 => {
                if let Some(mut a) = s.get_mut(h) {
                    assert!(a.tok() == t as u8, "C08: get_mut exposed a wrong or stale value");
                    let _ = a.access_mut();
                }
            }
            3 => {
                if let Ok(e) = s.entry(h) {
                    created_new = true;
                    let old = e.replace(T::mk(new));
                    inside[NI] = true;
                    if let Some(v) = old {
                        assert!(present && v.tok() == t as u8, "C08: entry.replace handed back a wrong value");
                        take_back(v, &mut returned);
                        inside[t] = false;
                    } else {
                        assert!(!present, "C08: entry.replace lost the previous value");
                    }
                }
            }
            4 => {
                if let Ok(e) = s.entry(h) {
                    match e {
                        StorageEntry::Occupied(o) => {
                            let v = o.remove();
                            assert!(present && v.tok() == t as u8, "C08: entry removal handed back a wrong value");
                            take_back(v, &mut returned);
                            inside[t] = false;
                        }
                        StorageEntry::Vacant(v) => {
                            created_new = true;
                            let a = v.insert(T::mk(new));
                            assert!(a.tok() == new, "C08: vacant insert exposed a wrong value");
                            inside[NI] = true;
                        }
                    }
                }
            }
            5 => {
                if let Ok(e) = s.entry(h) {
                    // or_insert on an occupied entry destroys the offered value
                    created_new = true;
                    let a = e.or_insert(T::mk(new));
                    if present {
                        assert!(a.tok() == t as u8, "C08: or_insert exposed a wrong value");
                    } else {
                        assert!(a.tok() == new, "C08: or_insert exposed a wrong value");
                        inside[NI] = true;
                    }
                }
            }
            6 => {
                for v in s.drain().join() {
                    let tk = v.tok();
                    let mut ok = false;
                    for k in 0..NI {
                        if k == tk as usize && inside[k] {
                            ok = true;
                            inside[k] = false;
                        }
                    }
                    assert!(ok, "C08: drain handed back a value that is not in the storage (or twice)");
                    take_back(v, &mut returned);
                }
            }
            7 => {
                s.clear();
            }
            8 => {
                // deletion of the entity purges by index
                forget(s);
                specs::storage::AnyStorage::drop(&mut masked, &[h]);
            }
            _ => {
                // partial drain: only the indices that are also in an arbitrary bit set
                let mut sel = BitSet::new();
                let mut in_sel = [false; NI];
                for i in 0..NI {
                    if nd::bool() {
                        sel.add(ids[i]);
                        in_sel[i] = true;
                    }
                }
                for (v, id) in (s.drain(), &sel).join() {
                    let tk = v.tok();
                    let mut ok = false;
                    for k in 0..NI {
                        if k == tk as usize && inside[k] && in_sel[k] && ids[k] == id {
                            ok = true;
                            inside[k] = false;
                        }
                    }
                    assert!(ok, "C08: partial drain handed back a value it should not have (or twice)");
                    take_back(v, &mut returned);
                }
                forget(sel);
            }
        }
    }
    // end of the world: the storage is dropped for real
    drop(masked);
    for k in 0..(NI + 1) {
        let d = drops(k as u8);
        let r = returned[k];
        if k < NI || created_new {
            assert!(d + r >= 1, "C08: a component value leaked (neither handed back nor destroyed)");
            assert!(d + r <= 1, "C08: a component value was destroyed twice, or destroyed and also handed back");
        } else {
            assert!(d + r == 0, "C08: a value that never existed was destroyed or handed back");
        }
    }
    // default fillers balance too
    // SAFETY: single-threaded harness
    let made = unsafe { FILLERS_MADE };
    assert!(drops(FILLER) == made, "C08: a default filler leaked or was destroyed twice");
    witness!(live && present, "drop: live handle, component present");
    forget(env);
}

/// `NullStorage`: zero-sized components are counted in aggregate:
/// created == handed back + destroyed, once the storage is gone.
pub fn drop_step_null(ids: [Index; NI], t: usize) {
    // SAFETY: single-threaded harness
    unsafe {
        NULL_DROPS = 0;
    }
    let mut masked = MaskedStorage::<TNull>::new(Default::default());
    let mut created = 0u8;
    let mut returned = 0u8;
    {
        let (ent0, es) = all_alive(ids);
        let env0 = Env::new(ent0);
        let mut s: St<'_, TNull> = Storage::new(env0.fetch(), &mut masked);
        for i in 0..NI {
            if nd::bool() {
                created += 1;
                let r = s.insert(es[i], TNull);
                assert!(r.is_ok(), "setup insert refused");
                forget(r);
            }
        }
        forget(s);
        forget(env0);
    }
    let (ent, es) = all_alive(ids);
    let env = Env::new(ent);
    let h = es[t];
    let op = nd::below(5);
    {
        let mut s: St<'_, TNull> = Storage::new(env.fetch(), &mut masked);
        match op {
            0 => {
                created += 1;
                match s.insert(h, TNull) {
                    Ok(Some(v)) => {
                        returned += 1;
                        forget(v);
                    }
                    Ok(None) => {}
                    Err(e) => forget(e),
                }
            }
            1 => {
                if let Some(v) = s.remove(h) {
                    returned += 1;
                    forget(v);
                }
            }
            2 => {
                for v in s.drain().join() {
                    returned += 1;
                    forget(v);
                }
            }
            3 => s.clear(),
            _ => {
                forget(s);
                specs::storage::AnyStorage::drop(&mut masked, &[h]);
            }
        }
    }
    drop(masked);
    // SAFETY: single-threaded harness
    let destroyed = unsafe { NULL_DROPS };
    assert!(created >= returned + destroyed, "C08: a zero-sized component was destroyed or handed back more often than created");
    assert!(created <= returned + destroyed, "C08: a zero-sized component leaked");
    witness!(created >= 2, "dropnull: reached end");
    forget(env);
}
