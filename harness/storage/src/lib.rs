//! Kani harnesses over the real component storages of `/repo`
//! (`src/storage/*`) through the public `Storage` API:
//!   C04  every storage kind behaves as the same map from live entity to value
//!   C03  a dead / stale handle can never read or change anything
//!
//! Shape of one query (`map_step`): an ARBITRARY storage content over the
//! concrete indices `IDS` (membership and values symbolic), an ARBITRARY
//! allocator state for those indices (alive, dead, reused and awaiting
//! maintain; any generation), ONE operation whose kind, handle generation and
//! value are symbolic, on a concrete target index. The result and the whole
//! observable state afterwards are compared with a plain `[Option<u8>; 3]`.
//!
//! Assertion messages are tagged with the property they belong to.
#![allow(clippy::needless_range_loop)]

use specs::prelude::*;
use specs::storage::{MaskedStorage, UnprotectedStorage};
use specs::world::{EntitiesRes, Index, VerifSlot};
use vsupport::{harness, nd, witness};

pub mod env;
pub mod comps;
pub mod mapstep;
pub mod track;
pub mod dropstep;
pub mod detstep;

pub use comps::*;
pub use env::*;

include!("variants.rs");
