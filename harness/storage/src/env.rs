//! Construction of `Fetch<EntitiesRes>` and of allocator states.
//!
//! Under Kani the `Fetch` comes from the shred model's `verif_from_ref`
//! (no `World`: a `World` is a `TypeId`-keyed hash map, out of CBMC's reach);
//! natively (counterexample replay against the real shred) it comes from a
//! real `World` holding only the entities resource.

use specs::world::{EntitiesRes, Entity, Index, VerifSlot};
use vsupport::nd;

#[cfg(kani)]
pub struct Env {
    ent: EntitiesRes,
}
#[cfg(not(kani))]
pub struct Env {
    world: shred::World,
}

impl Env {
    #[cfg(kani)]
    pub fn new(ent: EntitiesRes) -> Env {
        Env { ent }
    }
    #[cfg(not(kani))]
    pub fn new(ent: EntitiesRes) -> Env {
        let mut world = shred::World::empty();
        world.insert(ent);
        Env { world }
    }

    #[cfg(kani)]
    pub fn fetch(&self) -> shred::Fetch<'_, EntitiesRes> {
        shred::Fetch::verif_from_ref(&self.ent)
    }
    #[cfg(not(kani))]
    pub fn fetch(&self) -> shred::Fetch<'_, EntitiesRes> {
        self.world.fetch()
    }
}

/// Number of indices in play.
pub const NI: usize = 3;

/// An allocator in which the `NI` indices `ids` are all alive with generation 1
/// (used to fill a storage before the symbolic state is swapped in).
pub fn all_alive(ids: [Index; NI]) -> (EntitiesRes, [Entity; NI]) {
    let mut slots = [VerifSlot { id: 0, gen: 0, alive: false, raised: false, killed: false }; NI];
    for i in 0..NI {
        slots[i] = VerifSlot { id: ids[i], gen: 1, alive: true, raised: false, killed: false };
    }
    let top = ids[NI - 1] as usize + 1;
    let ent = EntitiesRes::verif_from_parts(top + 1, top + 1, &slots, &[], 0, 0, top);
    let es = [
        Entity::verif_new(ids[0], 1),
        Entity::verif_new(ids[1], 1),
        Entity::verif_new(ids[2], 1),
    ];
    (ent, es)
}

/// What the allocator says about one index.
#[derive(Clone, Copy)]
pub struct IdxState {
    pub g: i32,
    pub raised: bool,
}

impl IdxState {
    /// generation of the entity currently occupying the index, if any
    pub fn current(&self) -> Option<i32> {
        if self.g > 0 {
            Some(self.g)
        } else if self.raised {
            Some(1 - self.g)
        } else {
            None
        }
    }
    /// largest generation ever issued for the index
    pub fn mag(&self) -> i32 {
        if self.g > 0 {
            self.g
        } else if self.raised {
            1 - self.g
        } else {
            -self.g
        }
    }
}

/// An ARBITRARY allocator state for the indices `ids` (each one: alive with any
/// generation, dead with any generation, or reused and still awaiting
/// maintain), consistent with the allocator's representation invariant.
pub fn any_entities(ids: [Index; NI]) -> (EntitiesRes, [IdxState; NI]) {
    let mut slots = [VerifSlot { id: 0, gen: 0, alive: false, raised: false, killed: false }; NI];
    let mut st = [IdxState { g: 0, raised: false }; NI];
    for i in 0..NI {
        let g = nd::i32();
        nd::assume(g != 0 && g > -(i32::MAX - 4) && g < i32::MAX - 4);
        let raised = nd::bool();
        nd::assume(!(raised && g > 0));
        let killed = nd::bool();
        nd::assume(!killed || g > 0 || raised);
        slots[i] = VerifSlot { id: ids[i], gen: g, alive: g > 0, raised, killed };
        st[i] = IdxState { g, raised };
    }
    let top = ids[NI - 1] as usize + 1;
    let ent = EntitiesRes::verif_from_parts(top + 1, top + 1, &slots, &[], 0, 0, top);
    (ent, st)
}

/// An arbitrary handle on index `ids[t]` that was issued at some point
/// (generation in `1 ..= mag`); returns it with "is it the live one".
pub fn any_handle(ids: [Index; NI], st: &[IdxState; NI], t: usize) -> (Entity, bool) {
    let gen = nd::i32();
    nd::assume(gen >= 1 && gen <= st[t].mag());
    (Entity::verif_new(ids[t], gen), st[t].current() == Some(gen))
}
