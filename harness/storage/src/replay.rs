fn main() {
    vsupport::replay_main(h_storage::REGISTRY)
}
