harness! { fn q_map_vec_t0() unwind(6) { mapstep::map_step::<CVec>([0, 1, 2], 0, None) } }
harness! { fn q_map_dense_t1() unwind(6) { mapstep::map_step::<CDense>([0, 1, 2], 1, None) } }
harness! { fn q_map_vec_t0_op0() unwind(6) { mapstep::map_step::<CVec>([0, 1, 2], 0, Some(0)) } }
pub const REGISTRY: &[(&str, fn())] = &[("q_map_vec_t0", q_map_vec_t0), ("q_map_dense_t1", q_map_dense_t1), ("q_map_vec_t0_op0", q_map_vec_t0_op0)];
