//! One component type per storage kind under test.

use specs::prelude::*;
use specs::storage::{BTreeStorage, DefaultVecStorage, DerefFlaggedStorage, FlaggedStorage, HashMapStorage};

/// A component carrying one byte.
pub trait Val: Component + Sized {
    fn mk(v: u8) -> Self;
    fn val(&self) -> u8;
    fn set(&mut self, v: u8);
}

macro_rules! comp {
    ($name:ident, $storage:ty) => {
        #[derive(Debug, Default, PartialEq, Eq)]
        pub struct $name(pub u8);
        impl Component for $name {
            type Storage = $storage;
        }
        impl Val for $name {
            fn mk(v: u8) -> Self {
                $name(v)
            }
            fn val(&self) -> u8 {
                self.0
            }
            fn set(&mut self, v: u8) {
                self.0 = v;
            }
        }
    };
}

comp!(CVec, VecStorage<Self>);
comp!(CDense, DenseVecStorage<Self>);
comp!(CDefault, DefaultVecStorage<Self>);
comp!(CBTree, BTreeStorage<Self>);
comp!(CHash, HashMapStorage<Self>);
comp!(CFlagVec, FlaggedStorage<Self, VecStorage<Self>>);
comp!(CFlagDense, FlaggedStorage<Self, DenseVecStorage<Self>>);
comp!(CDerefVec, DerefFlaggedStorage<Self, VecStorage<Self>>);
comp!(CDerefDense, DerefFlaggedStorage<Self, DenseVecStorage<Self>>);

/// Zero-sized flag component for `NullStorage`; its "value" is always 0.
#[derive(Debug, Default, PartialEq, Eq)]
pub struct CNull;
impl Component for CNull {
    type Storage = NullStorage<Self>;
}
impl Val for CNull {
    fn mk(_: u8) -> Self {
        CNull
    }
    fn val(&self) -> u8 {
        0
    }
    fn set(&mut self, _: u8) {}
}
