//! C12: change-tracking storages report every insertion, removal and mutable
//! access. One symbolic operation on an arbitrary content, with a reader
//! registered before it; the event stream is compared with what the property
//! prescribes:
//!   * the Inserted/Removed sub-sequence must be EXACTLY the membership changes
//!     (and replaying it over the membership at registration time must give the
//!     final membership);
//!   * Modified events: only for the target entity; required when the caller
//!     obtained mutable access (deferred wrapper: when it actually dereferenced
//!     it mutably) or overwrote the component; forbidden for read-only access
//!     and for dead handles. Where the statement leaves it open (the immediate
//!     wrapper handing back mutable access to a freshly inserted component) both
//!     outcomes are accepted.

use crate::mapstep::{any_content, Kind, Model, St};
use crate::*;
use specs::storage::{AccessMut, AnyStorage, ComponentEvent, StorageEntry, Tracked};
use std::mem::forget;

pub trait TrackKind: Kind
where
    Self::Storage: Tracked,
{
    /// deferred variant: Modified only when the returned access is dereferenced mutably
    const DEFERRED: bool;
}
impl TrackKind for CFlagVec {
    const DEFERRED: bool = false;
}
impl TrackKind for CFlagDense {
    const DEFERRED: bool = false;
}
impl TrackKind for CDerefVec {
    const DEFERRED: bool = true;
}
impl TrackKind for CDerefDense {
    const DEFERRED: bool = true;
}

#[derive(Clone, Copy, PartialEq, Eq)]
enum Ev {
    I(Index),
    R(Index),
}

struct Expect {
    ir: [Option<Ev>; NI],
    n: usize,
    mod_min: usize,
    mod_max: usize,
}

impl Expect {
    fn push(&mut self, e: Ev) {
        for k in 0..NI {
            if k == self.n {
                self.ir[k] = Some(e);
            }
        }
        self.n += 1;
    }
    fn modified(&mut self, min: usize, max: usize) {
        self.mod_min += min;
        self.mod_max += max;
    }
}

pub const NOPS: u8 = 11;

pub fn track_step<T: TrackKind>(ids: [Index; NI], order: [usize; NI], t: usize, ops: (u8, u8))
where
    T::Storage: Default + Tracked,
{
    let mut masked = MaskedStorage::<T>::new(Default::default());
    let before: Model = any_content::<T>(&mut masked, ids, order);
    let (ent, st) = any_entities(ids);
    let env = Env::new(ent);
    let (h, live) = any_handle(ids, &st, t);
    let x = nd::u8();
    let write = nd::bool();
    let op = if ops.0 == ops.1 {
        ops.0
    } else {
        ops.0 + nd::below(ops.1 - ops.0 + 1)
    };
    let idt = ids[t];
    let present = before[t].is_some();
    let mut ex = Expect { ir: [None; NI], n: 0, mod_min: 0, mod_max: 0 };
    let mut s: St<'_, T> = Storage::new(env.fetch(), &mut masked);
    let mut reader = s.register_reader();
    // an access handed back by the API: the immediate wrapper has already
    // reported it; the deferred wrapper reports it iff we write through it
    let handed_back = |ex: &mut Expect, wrote: bool| {
        if T::DEFERRED {
            if wrote {
                ex.modified(1, 1);
            }
        } else {
            ex.modified(1, 1);
        }
    };
    match op {
        0 => {
            let r = s.insert(h, T::mk(x));
            forget(r);
            if live {
                if present {
                    ex.modified(1, 1); // overwritten
                } else {
                    ex.push(Ev::I(idt));
                }
            }
        }
        1 => {
            let _ = s.get(h).map(|c| c.val());
        }
        2 => {
            if let Some(mut a) = s.get_mut(h) {
                if write {
                    a.access_mut().set(x);
                }
                handed_back(&mut ex, write);
            }
        }
        3 => {
            let r = s.remove(h);
            forget(r);
            if live && present {
                ex.push(Ev::R(idt));
            }
        }
        4 => {
            let _ = s.contains(h);
        }
        5 => {
            if let Ok(e) = s.entry(h) {
                let mut a = e.or_insert(T::mk(x));
                if write {
                    a.access_mut().set(x);
                }
                if present {
                    handed_back(&mut ex, write);
                } else {
                    ex.push(Ev::I(idt));
                    // freshly inserted and handed back: open for the immediate wrapper
                    if T::DEFERRED {
                        if write {
                            ex.modified(1, 1);
                        }
                    } else {
                        ex.modified(0, 1);
                    }
                }
            }
        }
        6 => {
            if let Ok(e) = s.entry(h) {
                let old = e.replace(T::mk(x));
                forget(old);
                if present {
                    ex.modified(1, 1); // overwritten
                } else {
                    ex.push(Ev::I(idt));
                    if !T::DEFERRED {
                        ex.modified(0, 1);
                    }
                }
            }
        }
        7 => {
            if let Ok(StorageEntry::Occupied(o)) = s.entry(h) {
                let _ = o.get().val(); // read-only
                let old = o.remove();
                forget(old);
                ex.push(Ev::R(idt));
            }
        }
        8 => {
            // join over the tracked storage, shared: read-only, no event
            for c in (&s).join() {
                let _ = c.val();
            }
        }
        9 => {
            for c in s.drain().join() {
                forget(c);
            }
            for i in 0..NI {
                if before[i].is_some() {
                    ex.push(Ev::R(ids[i]));
                }
            }
        }
        _ => {
            // deletion of the entity: AnyStorage::drop purges by index
            forget(s);
            AnyStorage::drop(&mut masked, &[h]);
            if present {
                ex.push(Ev::R(idt));
            }
            s = Storage::new(env.fetch(), &mut masked);
        }
    }
    if !live && op <= 7 {
        assert!(ex.n == 0 && ex.mod_max == 0, "harness: events expected for a dead handle");
    }
    // read the events and compare
    let mut member = [false; NI];
    for i in 0..NI {
        member[i] = before[i].is_some();
    }
    let mut k = 0usize;
    let mut mods = 0usize;
    for ev in s.channel().read(&mut reader) {
        match *ev {
            ComponentEvent::Modified(id) => {
                assert!(id == idt, "C12: modification event for an entity that was not accessed mutably");
                mods += 1;
            }
            ComponentEvent::Inserted(id) => {
                let mut ok = false;
                for j in 0..NI {
                    if j == k && j < ex.n && ex.ir[j] == Some(Ev::I(id)) {
                        ok = true;
                    }
                    if ids[j] == id {
                        assert!(!member[j], "C12: insertion event for an entity that already had the component");
                        member[j] = true;
                    }
                }
                assert!(ok, "C12: unexpected, duplicated or misordered insertion event");
                k += 1;
            }
            ComponentEvent::Removed(id) => {
                let mut ok = false;
                for j in 0..NI {
                    if j == k && j < ex.n && ex.ir[j] == Some(Ev::R(id)) {
                        ok = true;
                    }
                    if ids[j] == id {
                        assert!(member[j], "C12: removal event for an entity that had no component");
                        member[j] = false;
                    }
                }
                assert!(ok, "C12: unexpected, duplicated or misordered removal event");
                k += 1;
            }
        }
    }
    assert!(k == ex.n, "C12: an insertion or removal produced no event");
    assert!(mods >= ex.mod_min, "C12: mutable access produced no modification event");
    assert!(mods <= ex.mod_max, "C12: modification event without mutable access (read-only access, dead handle, or duplicate)");
    // replaying insertions and removals over the membership at registration
    // time reproduces the current membership
    for i in 0..NI {
        assert!(s.mask().contains(ids[i]) == member[i], "C12: replaying the events does not reproduce the current membership");
    }
    witness!(live && present, "track: live handle, component present");
    witness!(mods == 1 || op >= 8, "track: one modification event (groups a, b)");
    witness!(k >= 1 || op < 8, "track: an insertion/removal event (group c)");
    forget(reader);
    forget(s);
    forget(masked);
    forget(env);
}
