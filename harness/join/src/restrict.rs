//! C13: restricted storages.

use crate::joins::{any_storage, Seq, St};
use crate::*;
use specs::storage::{ComponentEvent, SliceAccess};
use std::mem::forget;

fn cur_val(m: &[Option<u8>; NI], live: bool, t: usize) -> Option<u8> {
    if live {
        m[t]
    } else {
        None
    }
}

/// Sequential join over `&restrict()`: visits exactly the members, reads equal
/// direct lookups, other-entity lookup follows aliveness and membership.
pub fn restrict_read(ids: [Index; NI], t: usize) {
    let mut ma = MaskedStorage::<CVec>::new(Default::default());
    let am = any_storage::<CVec>(&mut ma, ids);
    let (ent, st) = any_entities(ids);
    let env = Env::new(ent);
    let sa: St<'_, CVec> = Storage::new(env.fetch(), &mut ma);
    let (h, live) = any_handle(ids, &st, t);
    let mut q = Seq::new();
    {
        let r = sa.restrict();
        for e in (&r).join() {
            q.yielded(e.get().0 as u64);
            let other = e.get_other(h).map(|c| c.0);
            if !live {
                assert!(other.is_none(), "C03/C13: get_other through a dead handle returned a component");
            }
            assert!(other == cur_val(&am, live, t), "C13: get_other differs from the storage's own lookup");
        }
        // lending variant visits the same items
        let mut n = 0;
        let mut it = (&r).lend_join();
        while let Some(e) = it.next() {
            let _ = e.get();
            n += 1;
        }
        assert!(n == q.n, "C13: lending join over a restricted storage visits a different set");
    }
    for i in 0..NI {
        if let Some(a) = am[i] {
            q.expect(a as u64);
        }
        assert!(sa.mask().contains(ids[i]) == am[i].is_some(), "C13: restricted join changed membership");
    }
    q.check();
    witness!(!live && am[t].is_some() && st[t].current().is_some(), "restrict: stale handle whose index has a newer occupant with a component");
    forget(sa);
    forget(ma);
    forget(env);
}

/// Lending join over `&mut restrict_mut()` on a change-tracking storage: the
/// caller fetches an arbitrary subset mutably; writes land on exactly those
/// entities; a modification event is emitted for exactly those indices.
pub fn restrict_mut_lend(ids: [Index; NI], t: usize) {
    let mut ma = MaskedStorage::<CFlagVec>::new(Default::default());
    let am = any_storage::<CFlagVec>(&mut ma, ids);
    let (ent, st) = any_entities(ids);
    let env = Env::new(ent);
    let mut sa: St<'_, CFlagVec> = Storage::new(env.fetch(), &mut ma);
    let mut reader = sa.register_reader();
    let (h, live) = any_handle(ids, &st, t);
    let x = nd::u8();
    let mut chosen = [false; NI];
    // current values (a write through an earlier item is visible to later lookups)
    let mut now = am;
    let mut q = Seq::new();
    {
        let mut r = sa.restrict_mut();
        let mut it = (&mut r).lend_join();
        let mut k = 0usize;
        while let Some(mut e) = it.next() {
            q.yielded(e.get().0 as u64);
            let other = e.get_other(h).map(|c| c.0);
            assert!(other == cur_val(&now, live, t), "C13: get_other differs from the storage's own lookup");
            if nd::bool() {
                e.get_mut().0 = x;
                // which index is this? the k-th member
                let mut seen = 0usize;
                for i in 0..NI {
                    if am[i].is_some() {
                        if seen == k {
                            chosen[i] = true;
                            now[i] = Some(x);
                        }
                        seen += 1;
                    }
                }
            }
            k += 1;
        }
        forget(it);
    }
    for i in 0..NI {
        if let Some(a) = am[i] {
            q.expect(a as u64);
        }
    }
    q.check();
    // exactly the chosen entities changed, membership unchanged
    let mut expect_events = [0u32; NI];
    let mut ne = 0usize;
    for i in 0..NI {
        assert!(sa.mask().contains(ids[i]) == am[i].is_some(), "C13: restricted join changed membership");
        if let Some(a) = am[i] {
            let now = unsafe { specs::storage::UnprotectedStorage::get(sa.unprotected_storage(), ids[i]) }.0;
            assert!(now == if chosen[i] { x } else { a }, "C13: a write through a restricted item changed another entity (or was lost)");
        }
        if chosen[i] {
            for k in 0..NI {
                if k == ne {
                    expect_events[k] = ids[i];
                }
            }
            ne += 1;
        }
    }
    let mut got = 0usize;
    for ev in sa.channel().read(&mut reader) {
        match ev {
            ComponentEvent::Modified(id) => {
                let mut ok = false;
                for k in 0..NI {
                    if k == got && k < ne && expect_events[k] == *id {
                        ok = true;
                    }
                }
                assert!(ok, "C13: modification event for an item that was not fetched mutably (or out of order)");
            }
            _ => assert!(false, "C13: restricted access emitted an insertion/removal event"),
        }
        got += 1;
    }
    assert!(got == ne, "C13: a mutably fetched item produced no modification event");
    witness!(ne == 2, "restrict_mut: two of the items fetched mutably");
    forget(reader);
    forget(sa);
    forget(ma);
    forget(env);
}

/// `Join` over `&mut restrict_mut()` (shared-mutable items).
pub fn restrict_mut_join(ids: [Index; NI]) {
    let mut ma = MaskedStorage::<CDense>::new(Default::default());
    let am = any_storage::<CDense>(&mut ma, ids);
    let (ent, _st) = any_entities(ids);
    let env = Env::new(ent);
    let mut sa: St<'_, CDense> = Storage::new(env.fetch(), &mut ma);
    let x = nd::u8();
    let pick = nd::u8();
    let mut q = Seq::new();
    {
        let mut r = sa.restrict_mut();
        let mut k = 0u8;
        for mut e in (&mut r).join() {
            q.yielded(e.get().0 as u64);
            if k == pick {
                e.get_mut().0 = x;
            }
            k += 1;
        }
    }
    let mut k = 0u8;
    for i in 0..NI {
        if let Some(a) = am[i] {
            q.expect(a as u64);
            let now = unsafe { specs::storage::UnprotectedStorage::get(sa.unprotected_storage(), ids[i]) }.0;
            assert!(now == if k == pick { x } else { a }, "C13: a write through a restricted item changed another entity (or was lost)");
            k += 1;
        }
        assert!(sa.mask().contains(ids[i]) == am[i].is_some(), "C13: restricted join changed membership");
    }
    q.check();
    let _ = sa.as_slice();
    forget(sa);
    forget(ma);
    forget(env);
}

/// Lending join over `&mut restrict_mut()`: mutable lookup of ANOTHER entity
/// (which may be the item's own index through a stale handle) follows the
/// storage's aliveness and membership rules; a write through it lands on that
/// entity only.
pub fn restrict_other_mut(ids: [Index; NI], t: usize) {
    let mut ma = MaskedStorage::<CVec>::new(Default::default());
    let am = any_storage::<CVec>(&mut ma, ids);
    let (ent, st) = any_entities(ids);
    let env = Env::new(ent);
    let mut sa: St<'_, CVec> = Storage::new(env.fetch(), &mut ma);
    let (h, live) = any_handle(ids, &st, t);
    let y = nd::u8();
    let mut now = am;
    let mut visited = 0usize;
    {
        let mut r = sa.restrict_mut();
        let mut it = (&mut r).lend_join();
        while let Some(mut e) = it.next() {
            let want = cur_val(&now, live, t);
            let got_ro = e.get_other(h).map(|c| c.0);
            assert!(got_ro == want, "C13: get_other differs from the storage's own lookup");
            match e.get_other_mut(h) {
                Some(c) => {
                    assert!(live, "C03/C13: get_other_mut through a dead handle returned a component");
                    assert!(Some(c.0) == want, "C13: get_other_mut differs from the storage's own lookup");
                    c.0 = y;
                    now[t] = Some(y);
                }
                None => assert!(want.is_none(), "C13: get_other_mut missed a live entity's component"),
            }
            visited += 1;
        }
        forget(it);
    }
    let mut members = 0usize;
    for i in 0..NI {
        if am[i].is_some() {
            members += 1;
            let v = unsafe { specs::storage::UnprotectedStorage::get(sa.unprotected_storage(), ids[i]) }.0;
            assert!(Some(v) == now[i], "C13: a write through get_other_mut changed another entity (or was lost)");
        }
        assert!(sa.mask().contains(ids[i]) == am[i].is_some(), "C13: restricted join changed membership");
    }
    assert!(visited == members, "C13: lending join over a restricted storage visits a different set");
    witness!(!live && am[t].is_some() && st[t].current().is_some() && visited >= 1, "restrict: stale handle on an index whose newer occupant is visited");
    forget(sa);
    forget(ma);
    forget(env);
}
