//! Kani harnesses over the real join machinery of `/repo` (`src/join/*`,
//! the `Join` / `LendJoin` impls of storages, bit sets, the entities resource,
//! restricted storages, change sets and drains):
//!   C06  a join visits exactly the intersection, once each, in index order
//!   C13  restricted storages expose the same components, membership unchanged
//!   C16  a change set accumulates per entity and applies each sum once
//!   C03  (extra access paths) lending-join lookup by entity, `get_other`
//!
//! Shape of one query: every member of the joined tuple gets an ARBITRARY
//! membership over the concrete indices `IDS` (solver variables) and arbitrary
//! component values; the yielded sequence is compared with the per-index
//! oracle "present in every required member and absent from every negated one".
#![allow(clippy::needless_range_loop)]

use specs::prelude::*;
use specs::storage::MaskedStorage;
use specs::world::{EntitiesRes, Index};
use vsupport::{harness, nd, witness};

#[path = "../../storage/src/env.rs"]
pub mod env;
#[path = "../../storage/src/comps.rs"]
pub mod comps;
pub mod joins;
pub mod restrict;
pub mod changeset;

pub use comps::*;
pub use env::*;

include!("variants.rs");
