const IDS: [Index; NI] = [1, 63, 64];
// change sets sit on a DenseVecStorage whose internal slot numbers are small: dense low indices
// make slot-number / entity-index coincidences possible, so they are the stronger universe here
const IDS_DENSE: [Index; NI] = [0, 1, 2];
harness! { fn q_join_and2() unwind(7) { joins::shape_and2(IDS) } }
harness! { fn q_join_not() unwind(7) { joins::shape_not(IDS) } }
harness! { fn q_join_maybe() unwind(7) { joins::shape_maybe(IDS) } }
harness! { fn q_join_entities() unwind(7) { joins::shape_entities(IDS) } }
harness! { fn q_join_mut() unwind(7) { joins::shape_mut(IDS) } }
harness! { fn q_join_bitset() unwind(7) { joins::shape_bitset(IDS) } }
harness! { fn q_join_bitops() unwind(7) { joins::shape_bitops(IDS) } }
// arity 4 keeps the three indices in one bit-set word: with a word-straddling universe the nested
// BitSetAnd iteration needs an unwinding bound that CBMC cannot afford (out of memory at 12)
harness! { fn q_join_four() unwind(8) { joins::shape_four([0, 1, 2]) } }
harness! { fn q_join_lend_t0() unwind(7) { joins::shape_lend(IDS, 0) } }
harness! { fn q_join_lend_t1() unwind(7) { joins::shape_lend(IDS, 1) } }
harness! { fn q_join_drain() unwind(7) { joins::shape_drain(IDS) } }
harness! { fn q_restrict_read_t1() unwind(7) { restrict::restrict_read(IDS, 1) } }
harness! { fn q_restrict_read_t2() unwind(7) { restrict::restrict_read(IDS, 2) } }
harness! { fn q_restrict_mut_lend_t0() unwind(7) { restrict::restrict_mut_lend(IDS, 0) } }
harness! { fn q_restrict_mut_join() unwind(7) { restrict::restrict_mut_join(IDS) } }
harness! { fn q_changeset_0000() unwind(7) { changeset::changeset_acc(IDS_DENSE, [0, 0, 0, 0], (1, 1)) } }
harness! { fn q_changeset_0101() unwind(7) { changeset::changeset_acc(IDS_DENSE, [0, 1, 0, 1], (2, 1)) } }
harness! { fn q_changeset_0120() unwind(7) { changeset::changeset_acc(IDS_DENSE, [0, 1, 2, 0], (0, 2)) } }
harness! { fn q_changeset_2101() unwind(7) { changeset::changeset_acc(IDS_DENSE, [2, 1, 0, 1], (1, 2)) } }
harness! { fn q_changeset_1120() unwind(7) { changeset::changeset_acc(IDS_DENSE, [1, 1, 2, 0], (3, 0)) } }
// every arrival order of three distinct entities (the dense storage's internal permutation)
harness! { fn q_changeset_2012() unwind(7) { changeset::changeset_acc(IDS_DENSE, [2, 0, 1, 2], (2, 1)) } }
harness! { fn q_changeset_0210() unwind(7) { changeset::changeset_acc(IDS_DENSE, [0, 2, 1, 0], (1, 1)) } }
harness! { fn q_changeset_1021() unwind(7) { changeset::changeset_acc(IDS_DENSE, [1, 0, 2, 1], (0, 3)) } }
harness! { fn q_restrict_other_mut_t0() unwind(7) { restrict::restrict_other_mut(IDS, 0) } }
harness! { fn q_restrict_other_mut_t2() unwind(7) { restrict::restrict_other_mut(IDS, 2) } }
harness! { fn q_changeset_sparse_0120() unwind(7) { changeset::changeset_acc(IDS, [0, 1, 2, 0], (0, 2)) } }
harness! { fn q_changeset_sparse_2012() unwind(7) { changeset::changeset_acc(IDS, [2, 0, 1, 2], (2, 1)) } }
pub const REGISTRY: &[(&str, fn())] = &[
    ("q_join_and2", q_join_and2), ("q_join_not", q_join_not), ("q_join_maybe", q_join_maybe), ("q_join_entities", q_join_entities),
    ("q_join_mut", q_join_mut), ("q_join_bitset", q_join_bitset), ("q_join_bitops", q_join_bitops), ("q_join_four", q_join_four),
    ("q_join_lend_t0", q_join_lend_t0), ("q_join_lend_t1", q_join_lend_t1), ("q_join_drain", q_join_drain),
    ("q_restrict_read_t1", q_restrict_read_t1), ("q_restrict_read_t2", q_restrict_read_t2), ("q_restrict_mut_lend_t0", q_restrict_mut_lend_t0), ("q_restrict_mut_join", q_restrict_mut_join),
    ("q_restrict_other_mut_t0", q_restrict_other_mut_t0), ("q_restrict_other_mut_t2", q_restrict_other_mut_t2),
    ("q_changeset_sparse_0120", q_changeset_sparse_0120), ("q_changeset_sparse_2012", q_changeset_sparse_2012),
    ("q_changeset_0000", q_changeset_0000), ("q_changeset_0101", q_changeset_0101), ("q_changeset_0120", q_changeset_0120), ("q_changeset_2101", q_changeset_2101), ("q_changeset_1120", q_changeset_1120), ("q_changeset_2012", q_changeset_2012), ("q_changeset_0210", q_changeset_0210), ("q_changeset_1021", q_changeset_1021),
];
