//! C06: join shapes.

use crate::*;
use hibitset::{BitSetAnd, BitSetLike, BitSetNot, BitSetOr, BitSetXor};
use specs::join::JoinIter;
use specs::storage::SliceAccess;
use std::mem::forget;

pub type St<'a, T> = Storage<'a, T, &'a mut MaskedStorage<T>>;
pub type Model = [Option<u8>; NI];

/// Arbitrary content over `ids`: every index inserted (vectors reach their
/// final, concrete length), then an arbitrary subset removed.
pub fn any_storage<T: Val>(masked: &mut MaskedStorage<T>, ids: [Index; NI]) -> Model {
    let (ent0, es) = all_alive(ids);
    let env0 = Env::new(ent0);
    let mut model: Model = [None; NI];
    {
        let mut s: St<'_, T> = Storage::new(env0.fetch(), masked);
        for i in 0..NI {
            let v = nd::u8();
            let r = s.insert(es[i], T::mk(v));
            assert!(r.is_ok(), "setup insert refused");
            forget(r);
            model[i] = Some(v);
        }
        for i in 0..NI {
            if nd::bool() {
                let r = s.remove(es[i]);
                forget(r);
                model[i] = None;
            }
        }
    }
    forget(env0);
    model
}

/// A bit set with arbitrary membership over `ids`.
pub fn any_bitset(ids: [Index; NI]) -> (BitSet, [bool; NI]) {
    let mut b = BitSet::new();
    let mut m = [false; NI];
    for i in 0..NI {
        if nd::bool() {
            b.add(ids[i]);
            m[i] = true;
        }
    }
    (b, m)
}

/// Yielded and expected sequences of fingerprints.
pub struct Seq {
    pub got: [u64; NI],
    pub n: usize,
    pub exp: [u64; NI],
    pub m: usize,
}

impl Seq {
    pub fn new() -> Seq {
        Seq { got: [0; NI], n: 0, exp: [0; NI], m: 0 }
    }
    pub fn yielded(&mut self, fp: u64) {
        assert!(self.n < NI, "C06: join yielded more items than there are indices");
        for k in 0..NI {
            if k == self.n {
                self.got[k] = fp;
            }
        }
        self.n += 1;
    }
    pub fn expect(&mut self, fp: u64) {
        for k in 0..NI {
            if k == self.m {
                self.exp[k] = fp;
            }
        }
        self.m += 1;
    }
    pub fn check(&self) {
        assert!(self.n == self.m, "C06: join did not visit exactly the intersection (missed or extra index)");
        for k in 0..NI {
            if k < self.n {
                assert!(self.got[k] == self.exp[k], "C06: join item differs from the direct lookup / wrong order");
            }
        }
        witness!(self.n == NI, "join: all indices qualify");
        witness!(self.n == 0, "join: empty intersection");
        witness!(self.n == 1 && self.m == 1, "join: exactly one index qualifies");
    }
}

fn fp2(a: u8, b: u8) -> u64 {
    (a as u64) << 8 | b as u64
}
fn fp_opt(b: Option<u8>) -> u64 {
    match b {
        Some(v) => 0x100 | v as u64,
        None => 0,
    }
}

macro_rules! two_storages {
    ($ids:ident, $ma:ident, $am:ident, $mb:ident, $bm:ident, $env:ident, $st:ident, $sa:ident, $sb:ident) => {
        let mut $ma = MaskedStorage::<CVec>::new(Default::default());
        let $am = any_storage::<CVec>(&mut $ma, $ids);
        let mut $mb = MaskedStorage::<CDense>::new(Default::default());
        let $bm = any_storage::<CDense>(&mut $mb, $ids);
        let (ent, $st) = any_entities($ids);
        let $env = Env::new(ent);
        #[allow(unused_mut)]
        let mut $sa: St<'_, CVec> = Storage::new($env.fetch(), &mut $ma);
        #[allow(unused_mut)]
        let mut $sb: St<'_, CDense> = Storage::new($env.fetch(), &mut $mb);
    };
}

/// `(&a, &b)`
pub fn shape_and2(ids: [Index; NI]) {
    two_storages!(ids, ma, am, mb, bm, env, _st, sa, sb);
    let mut q = Seq::new();
    for (x, y) in (&sa, &sb).join() {
        q.yielded(fp2(x.0, y.0));
    }
    for i in 0..NI {
        if let (Some(a), Some(b)) = (am[i], bm[i]) {
            q.expect(fp2(a, b));
        }
    }
    q.check();
    forget(sa);
    forget(sb);
    forget(ma);
    forget(mb);
    forget(env);
}

/// `(&a, !&b)`
pub fn shape_not(ids: [Index; NI]) {
    two_storages!(ids, ma, am, mb, bm, env, _st, sa, sb);
    let mut q = Seq::new();
    for (x, ()) in (&sa, !&sb).join() {
        q.yielded(x.0 as u64);
    }
    for i in 0..NI {
        if let (Some(a), None) = (am[i], bm[i]) {
            q.expect(a as u64);
        }
    }
    q.check();
    forget(sa);
    forget(sb);
    forget(ma);
    forget(mb);
    forget(env);
}

/// `(&a, (&b).maybe())`
pub fn shape_maybe(ids: [Index; NI]) {
    two_storages!(ids, ma, am, mb, bm, env, _st, sa, sb);
    let mut q = Seq::new();
    for (x, y) in (&sa, (&sb).maybe()).join() {
        q.yielded((x.0 as u64) << 16 | fp_opt(y.map(|c| c.0)));
    }
    for i in 0..NI {
        if let Some(a) = am[i] {
            q.expect((a as u64) << 16 | fp_opt(bm[i]));
        }
    }
    q.check();
    forget(sa);
    forget(sb);
    forget(ma);
    forget(mb);
    forget(env);
}

/// `(&entities, &a)`: exactly the occupied indices that have a component,
/// each with the index's current handle.
pub fn shape_entities(ids: [Index; NI]) {
    let mut ma = MaskedStorage::<CVec>::new(Default::default());
    let am = any_storage::<CVec>(&mut ma, ids);
    let (ent, st) = any_entities(ids);
    let env = Env::new(ent);
    let sa: St<'_, CVec> = Storage::new(env.fetch(), &mut ma);
    let entities: Entities<'_> = env.fetch().into();
    let mut q = Seq::new();
    for (e, x) in (&entities, &sa).join() {
        q.yielded((e.id() as u64) << 40 | (e.gen().id() as u32 as u64) << 8 | x.0 as u64);
        assert!(entities.is_alive(e), "C06: join over the entities resource yielded a handle that is not alive");
        assert!(sa.get(e).map(|c| c.0) == Some(x.0), "C06: join item differs from the direct lookup");
    }
    for i in 0..NI {
        if let (Some(g), Some(a)) = (st[i].current(), am[i]) {
            q.expect((ids[i] as u64) << 40 | (g as u32 as u64) << 8 | a as u64);
        }
    }
    q.check();
    forget(entities);
    forget(sa);
    forget(ma);
    forget(env);
}

/// `(&mut a, &b)`: a write through an item lands on that entity and no other.
pub fn shape_mut(ids: [Index; NI]) {
    two_storages!(ids, ma, am, mb, bm, env, _st, sa, sb);
    let x = nd::u8();
    let mut q = Seq::new();
    for (a, b) in (&mut sa, &sb).join() {
        q.yielded(fp2(a.0, b.0));
        a.0 = x;
    }
    for i in 0..NI {
        if let (Some(a), Some(b)) = (am[i], bm[i]) {
            q.expect(fp2(a, b));
        }
    }
    q.check();
    // visible afterwards on exactly the visited entities
    let sl = sa.as_slice();
    for i in 0..NI {
        if let Some(a) = am[i] {
            // SAFETY: occupied slot
            let now = unsafe { sl[ids[i] as usize].assume_init_ref() }.0;
            let want = if bm[i].is_some() { x } else { a };
            assert!(now == want, "C06: mutation through a join item is not visible on exactly that entity");
        }
        assert!(sa.mask().contains(ids[i]) == am[i].is_some(), "C06: mutable join changed membership");
    }
    forget(sa);
    forget(sb);
    forget(ma);
    forget(mb);
    forget(env);
}

/// `(&bitset, &a)` and the bit set combinators as members.
pub fn shape_bitset(ids: [Index; NI]) {
    let mut ma = MaskedStorage::<CVec>::new(Default::default());
    let am = any_storage::<CVec>(&mut ma, ids);
    let (b1, m1) = any_bitset(ids);
    let (ent, _st) = any_entities(ids);
    let env = Env::new(ent);
    let sa: St<'_, CVec> = Storage::new(env.fetch(), &mut ma);
    let mut q = Seq::new();
    for (id, x) in (&b1, &sa).join() {
        q.yielded((id as u64) << 8 | x.0 as u64);
    }
    for i in 0..NI {
        if let (true, Some(a)) = (m1[i], am[i]) {
            q.expect((ids[i] as u64) << 8 | a as u64);
        }
    }
    q.check();
    forget(sa);
    forget(ma);
    forget(env);
    forget(b1);
}

/// `(BitSetOr(&b1, &b2), BitSetNot(&b3))`, `BitSetAnd`, `BitSetXor` as members.
pub fn shape_bitops(ids: [Index; NI]) {
    let (b1, m1) = any_bitset(ids);
    let (b2, m2) = any_bitset(ids);
    let (b3, m3) = any_bitset(ids);
    let mut q = Seq::new();
    for (id, _) in (BitSetOr(&b1, &b2), BitSetNot(&b3)).join() {
        q.yielded(id as u64);
    }
    for i in 0..NI {
        if (m1[i] || m2[i]) && !m3[i] {
            q.expect(ids[i] as u64);
        }
    }
    q.check();
    let mut q = Seq::new();
    for (id, _) in (BitSetXor(&b1, &b2), BitSetAnd(&b1, &b3)).join() {
        q.yielded(id as u64);
    }
    for i in 0..NI {
        if (m1[i] != m2[i]) && m1[i] && m3[i] {
            q.expect(ids[i] as u64);
        }
    }
    q.check();
    forget(b1);
    forget(b2);
    forget(b3);
}

/// arity 4: `(&entities, &a, &b, &bitset)`
pub fn shape_four(ids: [Index; NI]) {
    two_storages!(ids, ma, am, mb, bm, env, st, sa, sb);
    let (b1, m1) = any_bitset(ids);
    let entities: Entities<'_> = env.fetch().into();
    let mut q = Seq::new();
    for (e, x, y, id) in (&entities, &sa, &sb, &b1).join() {
        assert!(e.id() == id, "C06: members of one item belong to different indices");
        q.yielded((id as u64) << 16 | fp2(x.0, y.0));
    }
    for i in 0..NI {
        if let (Some(_), Some(a), Some(b), true) = (st[i].current(), am[i], bm[i], m1[i]) {
            q.expect((ids[i] as u64) << 16 | fp2(a, b));
        }
    }
    q.check();
    forget(entities);
    forget(sa);
    forget(sb);
    forget(ma);
    forget(mb);
    forget(env);
    forget(b1);
}

/// lending variant: visits the same indices; lookup by entity returns an item
/// exactly when the entity is alive and in the intersection.
pub fn shape_lend(ids: [Index; NI], t: usize) {
    two_storages!(ids, ma, am, mb, bm, env, st, sa, sb);
    let entities: Entities<'_> = env.fetch().into();
    let mut q = Seq::new();
    {
        let mut it = (&sa, &sb).lend_join();
        while let Some((x, y)) = it.next() {
            q.yielded(fp2(x.0, y.0));
        }
    }
    for i in 0..NI {
        if let (Some(a), Some(b)) = (am[i], bm[i]) {
            q.expect(fp2(a, b));
        }
    }
    q.check();
    // lookup by entity through a fresh lending join
    let (h, live) = any_handle(ids, &st, t);
    let mut it = (&sa, &sb).lend_join();
    let got = it.get(h, &entities).map(|(x, y)| fp2(x.0, y.0));
    let want = match (live, am[t], bm[t]) {
        (true, Some(a), Some(b)) => Some(fp2(a, b)),
        _ => None,
    };
    if !live {
        assert!(got.is_none(), "C03/C06: lending-join lookup through a dead handle returned an item");
    }
    assert!(got == want, "C06: lending-join lookup by entity is wrong");
    witness!(!live && am[t].is_some() && bm[t].is_some() && st[t].current().is_some(), "lend: stale handle, newer occupant in the intersection");
    forget(it);
    forget(entities);
    forget(sa);
    forget(sb);
    forget(ma);
    forget(mb);
    forget(env);
}

/// `(a.drain(), &b)`: yields and removes exactly the components of the joined indices.
pub fn shape_drain(ids: [Index; NI]) {
    two_storages!(ids, ma, am, mb, bm, env, _st, sa, sb);
    let mut q = Seq::new();
    for (x, y) in (sa.drain(), &sb).join() {
        q.yielded(fp2(x.0, y.0));
        forget(x);
    }
    for i in 0..NI {
        if let (Some(a), Some(b)) = (am[i], bm[i]) {
            q.expect(fp2(a, b));
        }
    }
    q.check();
    for i in 0..NI {
        let keep = am[i].is_some() && bm[i].is_none();
        assert!(sa.mask().contains(ids[i]) == keep, "C06: draining join removed the wrong components");
    }
    forget(sa);
    forget(sb);
    forget(ma);
    forget(mb);
    forget(env);
}

#[allow(dead_code)]
fn _unused(_: JoinIter<&BitSet>, _: &dyn BitSetLike) {}
