//! C16: change sets.

use crate::joins::{any_storage, Seq, St};
use crate::*;
use specs::changeset::ChangeSet;
use std::mem::forget;

/// Order-sensitive accumulator: `a += b` is `a = 31 * a + b` (wrapping), so the
/// "combination in arrival order" is observable.
#[derive(Clone, Copy, Debug, PartialEq, Eq)]
pub struct Acc(pub u16);
impl std::ops::AddAssign for Acc {
    fn add_assign(&mut self, rhs: Acc) {
        self.0 = self.0.wrapping_mul(31).wrapping_add(rhs.0);
    }
}

pub const NP: usize = 4;

/// `NP` pairs whose targets follow the concrete pattern `pat` (indices into
/// `ids`), amounts symbolic; fed by collect (first `split.0`), extend (next
/// `split.1`) and `add` (the rest).
pub fn changeset_acc(ids: [Index; NI], pat: [usize; NP], split: (usize, usize)) {
    let (ent0, es) = all_alive(ids);
    forget(ent0);
    let mut amt = [Acc(0); NP];
    for k in 0..NP {
        amt[k] = Acc(nd::u8() as u16 | (nd::u8() as u16) << 8);
    }
    // oracle: per entity, amounts combined in arrival order
    let mut model: [Option<Acc>; NI] = [None; NI];
    for k in 0..NP {
        match model[pat[k]] {
            Some(ref mut a) => *a += amt[k],
            None => model[pat[k]] = Some(amt[k]),
        }
    }
    let pair = |k: usize| (es[pat[k]], amt[k]);
    let mut cs: ChangeSet<Acc> = (0..split.0).map(pair).collect();
    cs.extend((split.0..split.0 + split.1).map(pair));
    for k in (split.0 + split.1)..NP {
        cs.add(es[pat[k]], amt[k]);
    }
    // shared join: each mentioned entity once, ascending, with its sum
    let mut q = Seq::new();
    for a in (&cs).join() {
        q.yielded(a.0 as u64);
    }
    for i in 0..NI {
        if let Some(a) = model[i] {
            q.expect(a.0 as u64);
        }
    }
    assert!(q.n == q.m, "C16: change set holds an entity that was not mentioned, or misses one");
    for k in 0..NI {
        if k < q.n {
            assert!(q.got[k] == q.exp[k], "C16: accumulated amount differs from the amounts combined in arrival order");
        }
    }
    // joined with a storage: each amount is paired with the same entity's component
    let mut ma = MaskedStorage::<CVec>::new(Default::default());
    let am = any_storage::<CVec>(&mut ma, ids);
    let (ent, _st) = any_entities(ids);
    let env = Env::new(ent);
    let sa: St<'_, CVec> = Storage::new(env.fetch(), &mut ma);
    let mut q2 = Seq::new();
    for (a, c) in (&cs, &sa).join() {
        q2.yielded((a.0 as u64) << 8 | c.0 as u64);
    }
    for i in 0..NI {
        if let (Some(a), Some(c)) = (model[i], am[i]) {
            q2.expect((a.0 as u64) << 8 | c as u64);
        }
    }
    assert!(q2.n == q2.m, "C16: change set joined with a storage visits the wrong entities");
    for k in 0..NI {
        if k < q2.n {
            assert!(q2.got[k] == q2.exp[k], "C16: an amount was paired with another entity's component");
        }
    }
    // mutable join sees the same amounts
    let mut n3 = 0usize;
    for a in (&mut cs).join() {
        let mut ok = false;
        let mut seen = 0usize;
        for i in 0..NI {
            if let Some(m) = model[i] {
                if seen == n3 && m == *a {
                    ok = true;
                }
                seen += 1;
            }
        }
        assert!(ok, "C16: mutable join over the change set yields a wrong amount");
        n3 += 1;
    }
    assert!(n3 == q.m, "C16: mutable join over the change set visits the wrong entities");
    // consuming join yields each accumulated amount exactly once
    let mut q4 = Seq::new();
    for a in cs.join() {
        q4.yielded(a.0 as u64);
    }
    assert!(q4.n == q.m, "C16: consuming the change set yields the wrong number of amounts");
    for k in 0..NI {
        if k < q4.n {
            assert!(q4.got[k] == q.exp[k], "C16: consuming the change set yields a wrong amount");
        }
    }
    witness!(q.m >= 1, "changeset: reached end");
    forget(sa);
    forget(ma);
    forget(env);
}
