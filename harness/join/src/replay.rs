fn main() {
    vsupport::replay_main(h_join::REGISTRY)
}
