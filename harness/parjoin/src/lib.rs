//! C07: a parallel join delivers the same items as the sequential join, each
//! exactly once.
//!
//! Kani has no threads. What the rayon scheduler contributes to this property is
//! *how the index space is split*: any pool size and any stealing pattern
//! yields SOME binary tree of `UnindexedProducer::split` calls whose leaves are
//! folded. `rayon::iter::plumbing::bridge_unindexed` is therefore stubbed by a
//! sequential driver that at every node NONDETERMINISTICALLY splits or folds, to
//! depth `DEPTH`; all of rayon's consumer / folder / reducer code, specs'
//! `JoinParIter` / `JoinProducer` and hibitset's `BitProducer::split` run for
//! real. One query covers every split tree up to that depth. Out of the claim:
//! data races and memory ordering between real threads.
#![allow(clippy::needless_range_loop)]

use rayon::iter::plumbing::{Folder, Reducer, UnindexedConsumer, UnindexedProducer};
use rayon::iter::ParallelIterator;
use specs::prelude::*;
use specs::storage::MaskedStorage;
use specs::world::{EntitiesRes, Index};
use std::sync::atomic::{AtomicU8, Ordering};
use vsupport::{harness, nd, witness};

#[path = "../../storage/src/env.rs"]
pub mod env;
#[path = "../../storage/src/comps.rs"]
pub mod comps;
pub use comps::*;
pub use env::*;

// ---------------------------------------------------------------- the bridge stub
fn leaf<P, C>(producer: P, consumer: C) -> C::Result
where
    P: UnindexedProducer,
    C: UnindexedConsumer<P::Item>,
{
    producer.fold_with(consumer.into_folder()).complete()
}

macro_rules! level {
    ($name:ident, $next:ident) => {
        fn $name<P, C>(producer: P, consumer: C) -> C::Result
        where
            P: UnindexedProducer,
            C: UnindexedConsumer<P::Item>,
        {
            if nd::bool() {
                match producer.split() {
                    (left, Some(right)) => {
                        let reducer = consumer.to_reducer();
                        let left_consumer = consumer.split_off_left();
                        let l = $next(left, left_consumer);
                        let r = $next(right, consumer);
                        reducer.reduce(l, r)
                    }
                    (left, None) => leaf(left, consumer),
                }
            } else {
                leaf(producer, consumer)
            }
        }
    };
}
level!(level1, leaf);
level!(level2, level1);
level!(level3, level2);

/// Split depth 1: with the three indices {1, 63, 64} the bit producer can split
/// exactly once (on layer 1, between the two layer-0 words), so depth 1 already
/// covers every split tree of this universe.
pub fn bridge_stub_d1<P, C>(producer: P, consumer: C) -> C::Result
where
    P: UnindexedProducer,
    C: UnindexedConsumer<P::Item>,
{
    level1(producer, consumer)
}
/// Replacement for `rayon::iter::plumbing::bridge_unindexed` (split depth 2).
pub fn bridge_stub_d2<P, C>(producer: P, consumer: C) -> C::Result
where
    P: UnindexedProducer,
    C: UnindexedConsumer<P::Item>,
{
    level2(producer, consumer)
}
/// Split depth 3.
pub fn bridge_stub_d3<P, C>(producer: P, consumer: C) -> C::Result
where
    P: UnindexedProducer,
    C: UnindexedConsumer<P::Item>,
{
    level3(producer, consumer)
}

// ---------------------------------------------------------------- helpers
pub type St<'a, T> = Storage<'a, T, &'a mut MaskedStorage<T>>;
pub type Model = [Option<u8>; NI];

pub fn any_storage<T: Val>(masked: &mut MaskedStorage<T>, ids: [Index; NI]) -> Model {
    let (ent0, es) = all_alive(ids);
    let env0 = Env::new(ent0);
    let mut model: Model = [None; NI];
    {
        let mut s: St<'_, T> = Storage::new(env0.fetch(), masked);
        for i in 0..NI {
            let v = nd::u8();
            let r = s.insert(es[i], T::mk(v));
            assert!(r.is_ok(), "setup insert refused");
            std::mem::forget(r);
            model[i] = Some(v);
        }
        for i in 0..NI {
            if nd::bool() {
                let r = s.remove(es[i]);
                std::mem::forget(r);
                model[i] = None;
            }
        }
        std::mem::forget(s);
    }
    std::mem::forget(env0);
    model
}

pub fn any_bitset(ids: [Index; NI]) -> (BitSet, [bool; NI]) {
    let mut b = BitSet::new();
    let mut m = [false; NI];
    for i in 0..NI {
        if nd::bool() {
            b.add(ids[i]);
            m[i] = true;
        }
    }
    (b, m)
}

fn pos(ids: [Index; NI], id: Index) -> usize {
    let mut p = NI;
    for i in 0..NI {
        if ids[i] == id {
            p = i;
        }
    }
    p
}

/// `(&bitset, &a).par_join()`: every qualifying index delivered exactly once
/// with its own component.
pub fn par_shared(ids: [Index; NI]) {
    let mut ma = MaskedStorage::<CVec>::new(Default::default());
    let am = any_storage::<CVec>(&mut ma, ids);
    let (b1, m1) = any_bitset(ids);
    let (ent, _st) = any_entities(ids);
    let env = Env::new(ent);
    let sa: St<'_, CVec> = Storage::new(env.fetch(), &mut ma);
    let hits = [AtomicU8::new(0), AtomicU8::new(0), AtomicU8::new(0), AtomicU8::new(0)];
    let bad = AtomicU8::new(0);
    (&b1, &sa).par_join().for_each(|(id, c)| {
        let p = pos(ids, id);
        hits[p].fetch_add(1, Ordering::Relaxed);
        if p < NI && am[p] != Some(c.0) {
            bad.fetch_add(1, Ordering::Relaxed);
        }
    });
    assert!(hits[NI].load(Ordering::Relaxed) == 0, "C07: parallel join delivered an index outside the members");
    assert!(bad.load(Ordering::Relaxed) == 0, "C07: parallel join delivered another index's component");
    let mut n = 0;
    for i in 0..NI {
        let want = if m1[i] && am[i].is_some() { 1 } else { 0 };
        let got = hits[i].load(Ordering::Relaxed);
        assert!(got >= want, "C07: parallel join missed an item of the sequential join");
        assert!(got <= want, "C07: parallel join delivered an item twice (or one the sequential join does not have)");
        n += want;
    }
    witness!(n == NI as u8, "par: all indices qualify");
    witness!(n == 0, "par: none qualifies");
    std::mem::forget(sa);
    std::mem::forget(ma);
    std::mem::forget(env);
    std::mem::forget(b1);
}

/// `(&mut a, &b).par_join()`: every qualifying component is handed out mutably
/// exactly once; the workers' writes are visible afterwards.
pub fn par_mut(ids: [Index; NI]) {
    let mut ma = MaskedStorage::<CVec>::new(Default::default());
    let am = any_storage::<CVec>(&mut ma, ids);
    let mut mb = MaskedStorage::<CDense>::new(Default::default());
    let bm = any_storage::<CDense>(&mut mb, ids);
    let (ent, _st) = any_entities(ids);
    let env = Env::new(ent);
    let mut sa: St<'_, CVec> = Storage::new(env.fetch(), &mut ma);
    let sb: St<'_, CDense> = Storage::new(env.fetch(), &mut mb);
    let bad = AtomicU8::new(0);
    let delivered = AtomicU8::new(0);
    (&mut sa, &sb).par_join().for_each(|(a, b)| {
        // each delivery bumps the component by one: a component handed out
        // twice ends up bumped twice
        a.0 = a.0.wrapping_add(1);
        delivered.fetch_add(1, Ordering::Relaxed);
        let _ = b.0;
        let _ = &bad;
    });
    let sl = specs::storage::SliceAccess::as_slice(sa.unprotected_storage());
    let mut want_n = 0u8;
    for i in 0..NI {
        if let Some(a) = am[i] {
            // SAFETY: occupied slot
            let now = unsafe { sl[ids[i] as usize].assume_init_ref() }.0;
            if bm[i].is_some() {
                want_n += 1;
                assert!(now != a, "C07: parallel join missed an item / a worker's mutation is not visible afterwards");
                assert!(now == a.wrapping_add(1), "C07: a component was handed out mutably more than once");
            } else {
                assert!(now == a, "C07: parallel join mutated a component outside the intersection");
            }
        }
    }
    assert!(delivered.load(Ordering::Relaxed) == want_n, "C07: parallel join delivered a different number of items than the sequential join");
    witness!(want_n == NI as u8, "parmut: all indices qualify");
    std::mem::forget(sa);
    std::mem::forget(sb);
    std::mem::forget(ma);
    std::mem::forget(mb);
    std::mem::forget(env);
}

const IDS: [Index; NI] = [1, 63, 64];

harness! {
    #[cfg_attr(kani, kani::stub(rayon::iter::plumbing::bridge_unindexed, bridge_stub_d2))]
    fn q_par_shared_d2() unwind(8) { par_shared(IDS) }
}
harness! {
    #[cfg_attr(kani, kani::stub(rayon::iter::plumbing::bridge_unindexed, bridge_stub_d2))]
    fn q_par_mut_d2() unwind(8) { par_mut(IDS) }
}

harness! {
    #[cfg_attr(kani, kani::stub(rayon::iter::plumbing::bridge_unindexed, bridge_stub_d1))]
    fn q_par_shared_d1() unwind(8) { par_shared(IDS) }
}
harness! {
    #[cfg_attr(kani, kani::stub(rayon::iter::plumbing::bridge_unindexed, bridge_stub_d1))]
    fn q_par_mut_d1() unwind(8) { par_mut(IDS) }
}

pub const REGISTRY: &[(&str, fn())] = &[("q_par_shared_d2", q_par_shared_d2), ("q_par_mut_d2", q_par_mut_d2),
    ("q_par_shared_d1", q_par_shared_d1), ("q_par_mut_d1", q_par_mut_d1)];
