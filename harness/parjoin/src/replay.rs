fn main() {
    vsupport::replay_main(h_parjoin::REGISTRY)
}
