//! Shared support for the Kani harness crates.
//!
//! All nondeterminism in a harness goes through `nd::*`. Under Kani these are
//! `kani::any()`; in a native build they pop the byte vectors that Kani's
//! concrete playback printed for a counterexample, in the same order, so the
//! very same harness body replays the solver's assignment against the real
//! (unmodelled) dependencies.

pub mod nd {
    #[cfg(not(kani))]
    use std::cell::RefCell;

    #[cfg(not(kani))]
    thread_local! {
        static QUEUE: RefCell<(Vec<Vec<u8>>, usize)> = RefCell::new((Vec::new(), 0));
        static ASSUME_FAILED: RefCell<bool> = RefCell::new(false);
        static RANDOM: RefCell<Option<u64>> = RefCell::new(None);
    }

    /// Native only: draw pseudo-random values (xorshift) instead of replaying.
    /// Used to validate harness assumptions / reference models on long
    /// concrete histories; never the deciding step of a check.
    #[cfg(not(kani))]
    pub fn load_random(seed: u64) {
        RANDOM.with(|r| *r.borrow_mut() = Some(seed | 1));
        ASSUME_FAILED.with(|a| *a.borrow_mut() = false);
    }

    #[cfg(not(kani))]
    fn random_byte() -> Option<u8> {
        RANDOM.with(|r| {
            let mut r = r.borrow_mut();
            match *r {
                None => None,
                Some(mut x) => {
                    x ^= x << 13;
                    x ^= x >> 7;
                    x ^= x << 17;
                    *r = Some(x);
                    Some((x >> 24) as u8)
                }
            }
        })
    }

    /// Native only: load the byte vectors to be returned by subsequent draws.
    #[cfg(not(kani))]
    pub fn load(vals: Vec<Vec<u8>>) {
        QUEUE.with(|q| *q.borrow_mut() = (vals, 0));
        ASSUME_FAILED.with(|a| *a.borrow_mut() = false);
    }

    /// Native only: did any `assume` fail / did the queue run dry?
    #[cfg(not(kani))]
    pub fn assumption_failed() -> bool {
        ASSUME_FAILED.with(|a| *a.borrow())
    }

    /// Native only: number of draws consumed.
    #[cfg(not(kani))]
    pub fn consumed() -> (usize, usize) {
        QUEUE.with(|q| {
            let q = q.borrow();
            (q.1, q.0.len())
        })
    }

    #[cfg(not(kani))]
    fn pop(n: usize) -> Vec<u8> {
        if let Some(b) = random_byte() {
            let mut v = vec![b];
            while v.len() < n {
                v.push(random_byte().unwrap());
            }
            return v;
        }
        QUEUE.with(|q| {
            let mut q = q.borrow_mut();
            let i = q.1;
            q.1 += 1;
            match q.0.get(i) {
                Some(v) if v.len() == n => v.clone(),
                _ => {
                    ASSUME_FAILED.with(|a| *a.borrow_mut() = true);
                    vec![0; n]
                }
            }
        })
    }

    #[cfg(kani)]
    #[inline(always)]
    pub fn bool() -> bool {
        kani::any()
    }
    #[cfg(not(kani))]
    pub fn bool() -> bool {
        pop(1)[0] != 0
    }

    #[cfg(kani)]
    #[inline(always)]
    pub fn u8() -> u8 {
        kani::any()
    }
    #[cfg(not(kani))]
    pub fn u8() -> u8 {
        pop(1)[0]
    }

    #[cfg(kani)]
    #[inline(always)]
    pub fn u32() -> u32 {
        kani::any()
    }
    #[cfg(not(kani))]
    pub fn u32() -> u32 {
        let v = pop(4);
        u32::from_le_bytes([v[0], v[1], v[2], v[3]])
    }

    #[cfg(kani)]
    #[inline(always)]
    pub fn i32() -> i32 {
        kani::any()
    }
    #[cfg(not(kani))]
    pub fn i32() -> i32 {
        u32() as i32
    }

    #[cfg(kani)]
    #[inline(always)]
    pub fn usize() -> usize {
        kani::any()
    }
    #[cfg(not(kani))]
    pub fn usize() -> usize {
        let v = pop(8);
        let mut b = [0u8; 8];
        b.copy_from_slice(&v);
        u64::from_le_bytes(b) as usize
    }

    /// `u8` below `n` (assumed).
    #[inline(always)]
    pub fn below(n: u8) -> u8 {
        let v = u8();
        #[cfg(not(kani))]
        if RANDOM.with(|r| r.borrow().is_some()) {
            return v % n;
        }
        assume(v < n);
        v
    }

    #[cfg(kani)]
    #[inline(always)]
    pub fn assume(c: bool) {
        kani::assume(c)
    }
    /// Native: a failed assumption means the replayed values do not describe a
    /// run of this harness; remember it and stop the run by unwinding.
    #[cfg(not(kani))]
    pub fn assume(c: bool) {
        if !c {
            ASSUME_FAILED.with(|a| *a.borrow_mut() = true);
            std::panic::panic_any(AssumeFailed);
        }
    }

    /// Payload used to unwind out of a native replay whose assumption failed.
    pub struct AssumeFailed;
}

/// Reachability witness: `kani::cover!` under Kani, nothing natively.
#[macro_export]
macro_rules! witness {
    ($cond:expr, $msg:literal) => {{
        // `--cfg no_witness` (counterexample extraction runs): covers off, so
        // that the concrete playback is generated for the failed check
        #[cfg(all(kani, not(no_witness)))]
        kani::cover!($cond, $msg);
        #[cfg(any(not(kani), no_witness))]
        {
            let _ = $cond;
        }
    }};
}

/// Declares a harness: a `#[kani::proof]` under Kani, a plain function natively.
#[macro_export]
macro_rules! harness {
    ($(#[$m:meta])* fn $name:ident() unwind($u:expr) $body:block) => {
        $(#[$m])*
        #[cfg_attr(kani, kani::proof)]
        #[cfg_attr(kani, kani::unwind($u))]
        pub fn $name() $body
    };
}

/// Native replay entry point: `replay_main(&[("name", f), ...])`.
/// usage: <bin> <harness> <file with one line per draw: comma-separated bytes>
/// exit 0: harness ran to completion (no failure reproduced)
/// exit 1: an assertion / panic was reproduced
/// exit 3: the values do not satisfy the harness's assumptions (inconclusive)
#[cfg(not(kani))]
pub fn replay_main(registry: &[(&str, fn())]) -> ! {
    let args: Vec<String> = std::env::args().collect();
    if args.len() == 2 && args[1] == "--list" {
        for (n, _) in registry {
            println!("{}", n.rsplit("::").next().unwrap());
        }
        std::process::exit(0);
    }
    if args.len() == 5 && args[1] == "--random" {
        // <bin> --random <harness> <runs> <seed>: assumption / reference-model validation
        let f = match registry.iter().find(|(n, _)| n.rsplit("::").next() == Some(args[2].as_str())) {
            Some((_, f)) => *f,
            None => {
                eprintln!("unknown harness {}", args[2]);
                std::process::exit(2);
            }
        };
        let runs: u64 = args[3].parse().expect("runs");
        let seed: u64 = args[4].parse().expect("seed");
        std::panic::set_hook(Box::new(|_| {}));
        let (mut done, mut skipped) = (0u64, 0u64);
        for k in 0..runs {
            nd::load_random(seed.wrapping_mul(0x9E37_79B9_7F4A_7C15).wrapping_add(k * 2 + 1));
            let r = std::panic::catch_unwind(f);
            if nd::assumption_failed() {
                skipped += 1;
            } else if r.is_err() {
                let _ = std::panic::take_hook();
                println!("random run {} (seed {}) FAILED", k, seed);
                // run it again with the default panic hook so that the message is printed
                nd::load_random(seed.wrapping_mul(0x9E37_79B9_7F4A_7C15).wrapping_add(k * 2 + 1));
                let _ = std::panic::catch_unwind(f);
                std::process::exit(1);
            } else {
                done += 1;
            }
        }
        println!("random: {} runs completed, {} skipped (assumption), 0 failed", done, skipped);
        std::process::exit(0);
    }
    if args.len() != 3 {
        eprintln!("usage: {} <harness> <values-file> | --list | --random <harness> <runs> <seed>", args[0]);
        std::process::exit(2);
    }
    let f = match registry.iter().find(|(n, _)| n.rsplit("::").next() == Some(args[1].as_str())) {
        Some((_, f)) => *f,
        None => {
            eprintln!("unknown harness {}", args[1]);
            std::process::exit(2);
        }
    };
    let text = std::fs::read_to_string(&args[2]).expect("values file");
    let mut vals = Vec::new();
    for line in text.lines() {
        let line = line.trim();
        if line.is_empty() || line.starts_with('#') {
            continue;
        }
        vals.push(
            line.split(',')
                .filter(|s| !s.trim().is_empty())
                .map(|s| s.trim().parse::<u8>().expect("byte"))
                .collect::<Vec<u8>>(),
        );
    }
    nd::load(vals);
    let r = std::panic::catch_unwind(f);
    let (used, avail) = nd::consumed();
    eprintln!("replay: consumed {} of {} draws", used, avail);
    if nd::assumption_failed() {
        eprintln!("replay: assumptions not satisfied by these values (inconclusive)");
        std::process::exit(3);
    }
    match r {
        Ok(()) => {
            eprintln!("replay: harness completed without failure");
            std::process::exit(0)
        }
        Err(_) => {
            eprintln!("replay: FAILURE REPRODUCED");
            std::process::exit(1)
        }
    }
}

/// Stub for `core::fmt::write` (`#[kani::stub(core::fmt::write, vsupport::fmt_write_stub)]`):
/// formatting is never the subject of a harness, and the formatting machinery (padding, char
/// counting, memchr) costs the symbolic executor minutes per reachable `format!`/`eprintln!`.
pub fn fmt_write_stub(_out: &mut dyn core::fmt::Write, _args: core::fmt::Arguments<'_>) -> core::fmt::Result {
    Ok(())
}
