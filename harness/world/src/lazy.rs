//! C09: `World::maintain` with queued lazy actions, from an arbitrary world.
//!
//! Pre-state as in `purge` (arbitrary content, allocator pattern with pending atomic creations
//! and deletion requests). K lazy actions of concrete kinds are queued through the real
//! `LazyUpdate` resource (insert / remove through arbitrary - live or stale - handles, `exec`
//! observers that log their position and look at the world they run in, an action that queues
//! another action, a lazily built entity). Then `maintain()` once, and once more.
//!
//! Checked: the log holds every action exactly once, in queue order, nested actions after the
//! ones queued before them and in the same maintain; every observer saw deferred creations
//! merged and deferred deletions effective WITH their components purged; inserts / removes hit
//! exactly their target, applied iff the target is alive at that point; the second maintain runs
//! nothing.

use crate::purge::{any_world_g, Model, W};
use crate::*;
use std::mem::forget;

/// Execution log kept as a world resource.
#[derive(Default)]
pub struct Log {
    pub n: usize,
    pub items: [u8; 8],
}
impl Log {
    pub fn push(&mut self, v: u8) {
        assert!(self.n < 8, "C09: more lazy actions ran than were queued");
        self.items[self.n] = v;
        self.n += 1;
    }
}

/// Expected state while the lazy actions run / after maintain.
#[derive(Clone, Copy)]
pub struct Exp {
    pub ma: Model,
    pub mb: Model,
    /// index is occupied by a live entity once maintain has merged (generation in `gen`)
    pub alive: [bool; NI],
    pub gen: [i32; NI],
    /// index held an entity whose deferred deletion takes effect in this maintain
    pub deleted: [bool; NI],
}

fn observe(world: &World, st: &[IdxState; NI]) {
    let ents = world.entities();
    let sa = world.read_storage::<CA>();
    let sb = world.read_storage::<CB>();
    for i in 0..NI {
        if let Some(g) = st[i].current() {
            let cur = Entity::verif_new(IDS[i], g);
            if st[i].killed {
                assert!(!ents.is_alive(cur), "C09: a lazy action ran before the deferred deletions took effect");
                assert!(!sa.mask().contains(IDS[i]) && !sb.mask().contains(IDS[i]), "C09/C05: a lazy action ran before the components of a deleted entity were purged");
            } else {
                assert!(world.is_alive(cur), "C09: a lazy action ran before the deferred creations were merged");
            }
        }
    }
}

/// Queues action number `pos` of kind `kind` on target index `t`; updates the expectation.
/// Returns the log entries this action must produce: (when it runs, when its nested action runs).
fn queue_action(w: &mut W, ex: &mut Exp, pos: u8, kind: u8, t: usize) -> (Option<u8>, Option<u8>) {
    let x = nd::u8();
    let st = w.st;
    match kind {
        // lazy insert into the registered storage through an arbitrary handle
        0 | 2 => {
            let (h, cur) = any_handle(&w.st, t);
            let live = cur && ex.alive[t];
            let lazy = w.world.read_resource::<LazyUpdate>();
            if kind == 0 {
                lazy.insert(h, CA(x));
                if live {
                    ex.ma[t] = Some(x);
                }
            } else {
                lazy.insert(h, CB(x));
                if live {
                    ex.mb[t] = Some(x);
                }
            }
            (None, None)
        }
        // lazy remove
        1 => {
            let (h, cur) = any_handle(&w.st, t);
            let live = cur && ex.alive[t];
            w.world.read_resource::<LazyUpdate>().remove::<CA>(h);
            if live {
                ex.ma[t] = None;
            }
            (None, None)
        }
        // observer
        3 => {
            w.world.read_resource::<LazyUpdate>().exec(move |world| {
                observe(world, &st);
                world.write_resource::<Log>().push(pos);
            });
            (Some(pos), None)
        }
        // an action that queues another action
        4 => {
            w.world.read_resource::<LazyUpdate>().exec_mut(move |world| {
                world.write_resource::<Log>().push(10 + pos);
                world.read_resource::<LazyUpdate>().exec(move |world| {
                    observe(world, &st);
                    world.write_resource::<Log>().push(20 + pos);
                });
            });
            (Some(10 + pos), Some(20 + pos))
        }
        // a lazily built entity with a component (kind 6: its deletion is requested before
        // maintain, kind 7: it is deleted at once - so the queued insertion must be skipped)
        _ => {
            // the index the next atomic creation takes, read from the allocator BEFORE the creation
            // (last entry of the free list, else the next unused index)
            let next: usize = {
                let ents = w.world.entities();
                let n = ents.verif_cache_len();
                if n > 0 {
                    ents.verif_cache()[n - 1] as usize
                } else {
                    ents.verif_max_id()
                }
            };
            let e = {
                let ents = w.world.entities();
                let lazy = w.world.read_resource::<LazyUpdate>();
                lazy.create_entity(&ents).with(CB(x)).build()
            };
            assert!(w.world.entities().is_alive(e), "C09/C02: a lazily built entity is not alive for its creator");
            if kind >= 6 {
                // The deletion is requested through a copy of the handle rebuilt with the index
                // the allocator's own state predicts (`next`, read before the creation: the last
                // entry of the free list, else the next unused index).
                // The index that comes out of the allocator's `Option`-returning free-list pop is
                // not a constant for the symbolic executor, and a deferred delete with a symbolic
                // index costs > 12 GB. The expectation is an ASSUMPTION (a different but legal
                // choice of index makes the query vacuous, which the end witness reports as a
                // broken check, never as a violation).
                let c = next;
                let ec = Entity::verif_new(c as Index, e.gen().id());
                nd::assume(ec == e);
                if kind == 6 {
                    let r = w.world.entities().delete(ec);
                    assert!(r.is_ok(), "C09/C02: deferred delete of a live entity was refused");
                    forget(r);
                } else {
                    let r = w.world.delete_entity(ec);
                    assert!(r.is_ok(), "C09/C02: immediate delete of a live entity was refused");
                    forget(r);
                }
            }
            let (id, g) = (e.id(), e.gen().id());
            let mut found = false;
            for i in 0..NI {
                if id == IDS[i] {
                    assert!(!w.st[i].occupied(), "C09/C01: an occupied index was handed out");
                    assert!(g == w.st[i].mag() + 1, "C09/C01: the lazily built entity's generation is not new");
                    if kind == 7 {
                        // created atomically and deleted at once: dead again, one generation on
                        w.st[i].g = -g;
                    } else {
                        w.st[i].raised = true;
                    }
                    if kind == 6 {
                        w.st[i].killed = true;
                    } else if kind == 7 {
                    } else {
                        ex.alive[i] = true;
                        ex.gen[i] = g;
                        ex.mb[i] = Some(x);
                    }
                    found = true;
                }
            }
            // a fresh index (no dead one on the free list) is not tracked by the model
            assert!(found || (id >= NI as Index && id < NI as Index + 3), "C09/C17: unexpected index for the lazily built entity");
            (None, None)
        }
    }
}

fn check_model(w: &W, ex: &Exp) {
    let sa = w.world.read_storage::<CA>();
    let sb = w.world.read_storage::<CB>();
    for i in 0..NI {
        assert!(sa.mask().contains(IDS[i]) == ex.ma[i].is_some(), "C09: the registered storage's membership differs from the queued actions applied in order");
        assert!(sb.mask().contains(IDS[i]) == ex.mb[i].is_some(), "C09: the setup-created storage's membership differs from the queued actions applied in order");
        if ex.alive[i] {
            let cur = Entity::verif_new(IDS[i], ex.gen[i]);
            assert!(w.world.is_alive(cur), "C09: an entity that should be alive after maintain is not");
            assert!(sa.get(cur).map(|c| c.0) == ex.ma[i], "C09: a component differs from the queued actions applied in order");
            assert!(sb.get(cur).map(|c| c.0) == ex.mb[i], "C09: a component differs from the queued actions applied in order");
        }
    }
}

/// K = 2 or 3 queued actions (`acts[k] = (kind, target)`, kind 255 = none).
pub fn lazy_step(acts: [(u8, usize); 3], setup_read: bool, pat: [u8; NI]) {
    lazy_step_g(acts, setup_read, pat, false)
}

/// `concrete_gens`: see `env::pattern_entities_into_g`.
pub fn lazy_step_g(acts: [(u8, usize); 3], setup_read: bool, pat: [u8; NI], concrete_gens: bool) {
    let mut w = any_world_g(setup_read, pat, concrete_gens);
    w.world.insert(Log::default());
    // expectation at the moment the lazy actions run: entities merged, deletions purged
    let mut ex = Exp { ma: w.ma, mb: w.mb, alive: [false; NI], gen: [0; NI], deleted: [false; NI] };
    for i in 0..NI {
        if let Some(g) = w.st[i].current() {
            if w.st[i].killed {
                ex.deleted[i] = true;
                ex.ma[i] = None;
                ex.mb[i] = None;
            } else {
                ex.alive[i] = true;
                ex.gen[i] = g;
            }
        }
    }
    let mut first: [Option<u8>; 3] = [None; 3];
    let mut nested: [Option<u8>; 3] = [None; 3];
    for k in 0..3 {
        if acts[k].0 != 255 {
            let (a, b) = queue_action(&mut w, &mut ex, k as u8, acts[k].0, acts[k].1);
            first[k] = a;
            nested[k] = b;
        }
    }
    // nothing runs before maintain
    assert!(w.world.read_resource::<Log>().n == 0, "C09: a lazy action ran before maintain");
    w.world.maintain();
    // the log: queued actions in order, then the actions they queued, in order
    let mut want = [0u8; 8];
    let mut n = 0;
    for k in 0..3 {
        if let Some(v) = first[k] {
            want[n] = v;
            n += 1;
        }
    }
    for k in 0..3 {
        if let Some(v) = nested[k] {
            want[n] = v;
            n += 1;
        }
    }
    {
        let log = w.world.read_resource::<Log>();
        assert!(log.n == n, "C09: a lazy action did not run exactly once during maintain");
        for i in 0..6 {
            if i < n {
                assert!(log.items[i] == want[i], "C09: lazy actions did not run in queue order");
            }
        }
    }
    check_model(&w, &ex);
    // nothing is left over: a second maintain runs nothing and changes nothing
    w.world.maintain();
    assert!(w.world.read_resource::<Log>().n == n, "C09: a lazy action ran again in a later maintain");
    check_model(&w, &ex);
    witness!(true, "end reached");
    forget(w);
}
