fn main() {
    vsupport::replay_main(h_world::REGISTRY)
}
