//! C05: one World-level deletion step from an arbitrary world.
//!
//! Pre-state: `WorldExt::new()`, storage A registered explicitly, storage B created by
//! system-data setup; arbitrary content of both over `NI` indices (membership and values
//! symbolic); arbitrary allocator state per index (alive / dead / reused and awaiting maintain /
//! deletion requested; any generation); the world invariant "a dead index has no component in
//! any storage" assumed. One deletion operation of a concrete kind, with arbitrary (live or
//! stale) handles. Post-state: every deleted entity's components are gone from BOTH storages,
//! every other entity's components are unchanged, the invariant holds again, and an entity
//! created afterwards (it reuses a just-freed index when there is one) has no component.

use crate::*;
use std::mem::forget;

pub type Model = [Option<u8>; NI];

pub struct W {
    pub world: World,
    pub ma: Model,
    pub mb: Model,
    pub st: [IdxState; NI],
}

fn fill<T: Component>(world: &World, es: &[Entity; NI], order: [usize; NI], mk: fn(u8) -> T) -> Model {
    let mut m: Model = [None; NI];
    let mut s = world.write_storage::<T>();
    for k in 0..NI {
        let i = order[k];
        let v = nd::u8();
        let r = s.insert(es[i], mk(v));
        assert!(r.is_ok(), "setup insert refused");
        forget(r);
        m[i] = Some(v);
    }
    for k in 0..NI {
        let i = order[NI - 1 - k];
        if nd::bool() {
            let r = s.remove(es[i]);
            assert!(r.is_some(), "setup remove failed");
            forget(r);
            m[i] = None;
        }
    }
    m
}

/// `WorldExt::new()` with both storages, arbitrary content, allocator state of pattern `pat`.
pub fn any_world(setup_read: bool, pat: [u8; NI]) -> W {
    any_world_g(setup_read, pat, false)
}

pub fn any_world_g(setup_read: bool, pat: [u8; NI], concrete_gens: bool) -> W {
    let mut world = World::new();
    world.register::<CA>();
    if setup_read {
        world.setup::<ReadStorage<CB>>();
    } else {
        world.setup::<WriteStorage<CB>>();
    }
    let es = all_alive_into(&mut world.write_resource::<EntitiesRes>());
    let ma = fill::<CA>(&world, &es, [0, 1, 2], CA);
    let mb = fill::<CB>(&world, &es, [2, 0, 1], CB);
    let st = pattern_entities_into_g(&mut world.write_resource::<EntitiesRes>(), pat, concrete_gens);
    for i in 0..NI {
        // a reachable world: a dead index has no component anywhere (C05's own invariant,
        // re-established by `check_after`)
        nd::assume(st[i].occupied() || (ma[i].is_none() && mb[i].is_none()));
    }
    W { world, ma, mb, st }
}

/// Everything C05 says about the state after a deletion step.
pub fn check_after(w: &W, dead: &[bool; NI]) {
    let sa = w.world.read_storage::<CA>();
    let sb = w.world.read_storage::<CB>();
    for i in 0..NI {
        if dead[i] || !w.st[i].occupied() {
            assert!(!sa.mask().contains(IDS[i]), "C05: component left in an explicitly registered storage after its entity was deleted");
            assert!(!sb.mask().contains(IDS[i]), "C05: component left in a storage created by system-data setup after its entity was deleted");
        } else {
            assert!(sa.mask().contains(IDS[i]) == w.ma[i].is_some(), "C05: membership of an entity that was not deleted changed");
            assert!(sb.mask().contains(IDS[i]) == w.mb[i].is_some(), "C05: membership of an entity that was not deleted changed");
            if let Some(g) = w.st[i].current() {
                let cur = Entity::verif_new(IDS[i], g);
                assert!(sa.get(cur).map(|c| c.0) == w.ma[i], "C05: component of an entity that was not deleted changed");
                assert!(sb.get(cur).map(|c| c.0) == w.mb[i], "C05: component of an entity that was not deleted changed");
            }
        }
    }
}

/// Creation (concrete kind) in an arbitrary world: the new entity - it reuses a dead index when
/// the free list has one - has no component in any storage, and nobody else's changed.
pub fn step_create(kind: u8, setup_read: bool, pat: [u8; NI]) {
    let mut w = any_world(setup_read, pat);
    let x = nd::u8();
    let e = match kind {
        0 => w.world.create_entity().build(),
        1 => w.world.entities().create(),
        2 => match w.world.create_iter().next() {
            Some(e) => e,
            None => return,
        },
        3 => w.world.create_entity().with(CA(x)).build(),
        _ => {
            let ents = w.world.entities();
            let mut sb = w.world.write_storage::<CB>();
            ents.build_entity().with(CB(x), &mut sb).build()
        }
    };
    let (id, g) = (e.id(), e.gen().id());
    assert!(id <= NI as Index, "C05/C17: the new entity's index is neither a freed one nor the next unused one");
    {
        let sa = w.world.read_storage::<CA>();
        let sb = w.world.read_storage::<CB>();
        // lookups through a handle rebuilt with a CONCRETE index per branch
        macro_rules! at {
            ($c:expr) => {
                if id == $c {
                    let ec = Entity::verif_new($c, g);
                    assert!(w.world.entities().is_alive(ec), "C05/C02: the new entity is not reported alive by the entities resource");
                    if kind == 3 {
                        assert!(sa.get(ec).map(|c| c.0) == Some(x), "C05: the component attached by the builder is missing");
                    } else {
                        assert!(!sa.contains(ec) && sa.get(ec).is_none() && !sa.mask().contains($c), "C05: a newly created entity already has a component");
                    }
                    if kind == 4 {
                        assert!(sb.get(ec).map(|c| c.0) == Some(x), "C05: the component attached by the builder is missing");
                    } else {
                        assert!(!sb.contains(ec) && sb.get(ec).is_none() && !sb.mask().contains($c), "C05: a newly created entity already has a component");
                    }
                    if $c < NI as Index {
                        assert!(!w.st[$c as usize].occupied(), "C05/C01: an occupied index was handed out");
                    }
                }
            };
        }
        at!(0);
        at!(1);
        at!(2);
        at!(3);
    }
    // nobody else gained or lost anything (the reused index was dead: no component by invariant)
    let mut skip = [false; NI];
    for i in 0..NI {
        skip[i] = id == IDS[i];
    }
    check_others(&w, &skip);
    witness!(true, "end reached");
    forget(w);
}

/// Components of every index not in `skip` are as in the model.
pub fn check_others(w: &W, skip: &[bool; NI]) {
    let sa = w.world.read_storage::<CA>();
    let sb = w.world.read_storage::<CB>();
    for i in 0..NI {
        if !skip[i] {
            assert!(sa.mask().contains(IDS[i]) == w.ma[i].is_some(), "C05: membership of an entity that was not deleted changed");
            assert!(sb.mask().contains(IDS[i]) == w.mb[i].is_some(), "C05: membership of an entity that was not deleted changed");
            if let Some(g) = w.st[i].current() {
                let cur = Entity::verif_new(IDS[i], g);
                assert!(sa.get(cur).map(|c| c.0) == w.ma[i], "C05: component of an entity that was not deleted changed");
                assert!(sb.get(cur).map(|c| c.0) == w.mb[i], "C05: component of an entity that was not deleted changed");
            }
        }
    }
}

/// op 0: `World::delete_entity` through an arbitrary handle on index `t`
pub fn step_delete_entity(t: usize, setup_read: bool, pat: [u8; NI]) {
    let mut w = any_world(setup_read, pat);
    let (h, live) = any_handle(&w.st, t);
    let r = w.world.delete_entity(h);
    assert!(r.is_ok() == live, "C05/C02: delete_entity succeeded exactly for a live handle");
    forget(r);
    let mut dead = [false; NI];
    dead[t] = live;
    check_after(&w, &dead);
    let occ = w.st[t].occupied();
    witness!(!occ || (live && w.ma[t].is_some() && w.mb[t].is_some()), "a live entity with both components is deleted (if the pattern has the index occupied)");
    witness!(!live && (!occ || w.ma[t].is_some()), "a handle that is not live is refused (while the index's occupant, if any, has a component)");
    forget(w);
}

/// op 1: `World::delete_entities(&[h_t, h_u])` (t may equal u)
pub fn step_delete_entities(t: usize, u: usize, setup_read: bool, pat: [u8; NI]) {
    let mut w = any_world(setup_read, pat);
    let (h0, live0) = any_handle(&w.st, t);
    let (h1, live1_pre) = any_handle(&w.st, u);
    // the second handle is looked at after the first was killed
    let live1 = live1_pre && !(t == u && live0);
    let r = w.world.delete_entities(&[h0, h1]);
    let mut dead = [false; NI];
    match &r {
        Ok(()) => assert!(live0 && live1, "C05/C02: batch deletion succeeded although a handle was dead"),
        Err((_, pos)) => {
            assert!(!(live0 && live1), "C05/C02: batch deletion failed although every handle was alive");
            assert!(*pos == if live0 { 1 } else { 0 }, "C05/C02: batch deletion reported the wrong position");
        }
    }
    forget(r);
    if live0 {
        dead[t] = true;
        if live1 {
            dead[u] = true;
        }
    }
    check_after(&w, &dead);
    let (occ_t, occ_u) = (w.st[t].occupied(), w.st[u].occupied());
    witness!(!occ_t || (live0 && !live1 && w.mb[t].is_some()), "the batch fails at the second handle after deleting the first");
    witness!(!(occ_u && t != u) || (!live0 && live1_pre && w.ma[u].is_some()), "the batch fails at the first handle: the second entity keeps its components");
    witness!(!(occ_t && occ_u && t != u) || (live0 && live1), "both deleted");
    forget(w);
}

/// op 2: deferred deletion through the entities resource, then `World::maintain`
///
/// `exact`: the handle is the target's CURRENT handle (the pattern must have the index occupied).
/// With an arbitrary handle the deletion request is conditional on a symbolic comparison, the
/// `killed` set's membership becomes symbolic, and `maintain`'s loop over it then runs on a
/// symbolic index (> 30 GB) - unless the pattern already has the deletion requested. So the
/// arbitrary-handle form is used on such patterns only, the exact form on the others.
pub fn step_delete_atomic_maintain(t: usize, setup_read: bool, pat: [u8; NI], exact: bool) {
    // (the exact form also fixes the generations to constants: `is_alive` branches on the sign
    // of the stored generation)
    let mut w = any_world_g(setup_read, pat, exact);
    let (h, live) = if exact {
        match w.st[t].current() {
            Some(g) => (Entity::verif_new(IDS[t], g), true),
            None => return,
        }
    } else {
        any_handle(&w.st, t)
    };
    {
        let r = w.world.entities().delete(h);
        assert!(r.is_ok() == live, "C05/C02: deferred delete succeeded exactly for a live handle");
        forget(r);
    }
    // nothing is purged before maintain
    check_after(&w, &[false; NI]);
    w.world.maintain();
    let mut dead = [false; NI];
    for i in 0..NI {
        dead[i] = w.st[i].occupied() && (w.st[i].killed || (i == t && live));
    }
    check_after(&w, &dead);
    witness!(!w.st[t].occupied() || (live && w.ma[t].is_some() && w.mb[t].is_some()), "deferred deletion of an entity with both components");
    witness!(exact || !live, "a handle that is not live is refused");
    forget(w);
}

/// op 3: `World::maintain` with arbitrary pending creations and deletions
pub fn step_maintain(setup_read: bool, pat: [u8; NI]) {
    let mut w = any_world(setup_read, pat);
    w.world.maintain();
    let mut dead = [false; NI];
    for i in 0..NI {
        dead[i] = w.st[i].occupied() && w.st[i].killed;
    }
    check_after(&w, &dead);
    witness!(
        (!w.st[0].occupied() || (w.ma[0].is_some() && w.mb[0].is_some()))
            && (!w.st[1].occupied() || (w.ma[1].is_some() && w.mb[1].is_some()))
            && (!w.st[2].occupied() || (w.ma[2].is_some() && w.mb[2].is_some())),
        "every occupied index has both components"
    );
    forget(w);
}

/// op 4: `World::delete_all`
pub fn step_delete_all(setup_read: bool, pat: [u8; NI]) {
    step_delete_all_g(setup_read, pat, false)
}

pub fn step_delete_all_g(setup_read: bool, pat: [u8; NI], concrete_gens: bool) {
    let mut w = any_world_g(setup_read, pat, concrete_gens);
    w.world.delete_all();
    let mut dead = [false; NI];
    for i in 0..NI {
        dead[i] = w.st[i].occupied();
    }
    check_after(&w, &dead);
    {
        let n = (&*w.world.entities()).join().count();
        assert!(n == 0, "C05/C02: an entity survived delete_all");
    }
    witness!(
        (!w.st[0].occupied() || (w.ma[0].is_some() && w.mb[0].is_some()))
            && (!w.st[1].occupied() || (w.ma[1].is_some() && w.mb[1].is_some()))
            && (!w.st[2].occupied() || (w.ma[2].is_some() && w.mb[2].is_some())),
        "every occupied index has both components"
    );
    forget(w);
}

/// op 5: an entity builder with components that is dropped without being built, then maintain
pub fn step_builder_dropped(setup_read: bool, pat: [u8; NI]) {
    step_builder_dropped_g(setup_read, pat, false)
}

pub fn step_builder_dropped_g(setup_read: bool, pat: [u8; NI], concrete_gens: bool) {
    let mut w = any_world_g(setup_read, pat, concrete_gens);
    let x = nd::u8();
    let id;
    {
        let b = w.world.create_entity().with(CA(x)).with(CB(x));
        id = b.entity.id();
        drop(b);
    }
    w.world.maintain();
    let mut dead = [false; NI];
    for i in 0..NI {
        dead[i] = w.st[i].occupied() && w.st[i].killed;
    }
    check_after(&w, &dead);
    {
        let sa = w.world.read_storage::<CA>();
        let sb = w.world.read_storage::<CB>();
        assert!(!sa.mask().contains(id) && !sb.mask().contains(id), "C05: components attached by a dropped builder survive its deletion");
    }
    witness!(
        (!w.st[0].occupied() || (w.ma[0].is_some() && w.mb[0].is_some()))
            && (!w.st[1].occupied() || (w.ma[1].is_some() && w.mb[1].is_some()))
            && (!w.st[2].occupied() || (w.ma[2].is_some() && w.mb[2].is_some())),
        "every occupied index has both components"
    );
    forget(w);
}

