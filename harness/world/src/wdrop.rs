//! C08 at World level: component values owned by a real `World` are handed back or destroyed
//! exactly once over the life of the world - including the purge of a deleted entity and the
//! teardown of the world itself (`drop(world)`: every `Box<dyn Resource>`, the storages' `Drop`).
//!
//! Tokens: component `CT(k)` whose `Drop` bumps counter `k`. Three tokens are inserted for three
//! live entities, an arbitrary subset is removed again (handed back to the harness, which forgets
//! them: "returned to the caller"), one World-level step follows, then the world is dropped for
//! real. Per token: handed back + destroyed == 1.

use crate::*;
use std::mem::forget;
use std::sync::atomic::{AtomicU8, Ordering};

static DROPS: [AtomicU8; NI] = [AtomicU8::new(0), AtomicU8::new(0), AtomicU8::new(0)];

#[derive(Debug)]
pub struct CT(pub u8);
impl Drop for CT {
    fn drop(&mut self) {
        if (self.0 as usize) < NI {
            DROPS[self.0 as usize].fetch_add(1, Ordering::Relaxed);
        }
    }
}
impl Component for CT {
    type Storage = VecStorage<Self>;
}

/// op 0: delete_entity(current handle of t); 1: deferred delete + maintain; 2: delete_all;
/// 3: overwrite t's token with a fresh one (the old one comes back); 4: nothing
pub fn wdrop_step(op: u8, t: usize, pat: [u8; NI]) {
    for k in 0..NI {
        DROPS[k].store(0, Ordering::Relaxed);
    }
    let mut world = World::new();
    world.register::<CT>();
    let es = all_alive_into(&mut world.write_resource::<EntitiesRes>());
    let mut back = [0u8; NI];
    let mut held = [false; NI];
    {
        let mut s = world.write_storage::<CT>();
        for i in 0..NI {
            let r = s.insert(es[i], CT(i as u8));
            assert!(matches!(&r, Ok(None)), "setup insert");
            forget(r);
            held[i] = true;
        }
        for i in 0..NI {
            if nd::bool() {
                let r = s.remove(es[i]);
                assert!(r.is_some(), "setup remove");
                forget(r); // handed back to the caller
                back[i] += 1;
                held[i] = false;
            }
        }
    }
    let st = pattern_entities_into_g(&mut world.write_resource::<EntitiesRes>(), pat, true);
    for i in 0..NI {
        nd::assume(st[i].occupied() || !held[i]);
    }
    match op {
        0 => {
            if let Some(g) = st[t].current() {
                let r = world.delete_entity(Entity::verif_new(IDS[t], g));
                assert!(r.is_ok(), "C08/C02: deleting a live entity failed");
                forget(r);
            }
        }
        1 => {
            if let Some(g) = st[t].current() {
                let r = world.entities().delete(Entity::verif_new(IDS[t], g));
                forget(r);
            }
            world.maintain();
        }
        2 => world.delete_all(),
        3 => {
            if let Some(g) = st[t].current() {
                let r = world.write_storage::<CT>().insert(Entity::verif_new(IDS[t], g), CT(200));
                match r {
                    Ok(Some(old)) => {
                        assert!(held[t] && old.0 == t as u8, "C08: overwrite handed back a value that was not stored");
                        forget(old);
                        back[t] += 1;
                    }
                    Ok(None) => assert!(!held[t], "C08: overwrite lost the stored value"),
                    Err(_) => assert!(false, "C08/C03: insert for a live entity was refused"),
                }
            }
        }
        _ => {}
    }
    // teardown
    drop(world);
    for k in 0..NI {
        let d = DROPS[k].load(Ordering::Relaxed);
        assert!(d + back[k] >= 1, "C08: a component value leaked (neither handed back nor destroyed by the end of the world)");
        assert!(d + back[k] <= 1, "C08: a component value was destroyed twice, or destroyed after being handed back");
    }
    witness!(held[0] && held[1] && held[2], "all three tokens still in the world before the step");
    witness!(!held[0] && !held[1] && !held[2], "all three handed back");
}
