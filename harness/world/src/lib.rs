//! Kani harnesses over a real (multi-resource) `World`: `WorldExt` glue of `/repo`.
#![allow(clippy::needless_range_loop)]

use specs::prelude::*;
use specs::storage::{AnyStorage, MaskedStorage};
use shred::MetaTable;
use vsupport::{harness, nd, witness};

#[derive(Debug, Default, PartialEq, Eq)]
pub struct CA(pub u8);
impl Component for CA {
    type Storage = VecStorage<Self>;
}
#[derive(Debug, Default, PartialEq, Eq)]
pub struct CB(pub u8);
impl Component for CB {
    type Storage = DenseVecStorage<Self>;
}

#[cfg(kani)]
#[kani::proof]
#[kani::unwind(6)]
#[kani::stub(core::fmt::write, vsupport::fmt_write_stub)]
fn probe_a() {
    // only shred: table + metatable
    let mut world = World::empty();
    world.insert(5u32);
    world.insert(MetaTable::<dyn AnyStorage>::default());
    assert!(*world.fetch::<u32>() == 5);
    *world.fetch_mut::<u32>() = 7;
    assert!(*world.fetch::<u32>() == 7);
    std::mem::forget(world);
}

#[cfg(kani)]
#[kani::proof]
#[kani::unwind(6)]
#[kani::stub(core::fmt::write, vsupport::fmt_write_stub)]
fn probe_b() {
    let mut world = World::empty();
    world.insert(MetaTable::<dyn AnyStorage>::default());
    world.insert(MaskedStorage::<CA>::new(Default::default()));
    world.fetch_mut::<MetaTable<dyn AnyStorage>>().register::<MaskedStorage<CA>>();
    let mut n = 0;
    for mut s in world.fetch_mut::<MetaTable<dyn AnyStorage>>().iter_mut(&world) {
        (*s).drop(&[]);
        n += 1;
    }
    assert!(n == 1);
    std::mem::forget(world);
}

#[cfg(kani)]
#[kani::proof]
#[kani::unwind(6)]
#[kani::stub(core::fmt::write, vsupport::fmt_write_stub)]
fn probe_c() {
    let mut world = World::new();
    world.register::<CA>();
    let e0 = world.create_entity().build();
    assert!(world.is_alive(e0));
    std::mem::forget(world);
}

#[cfg(kani)]
#[kani::proof]
#[kani::unwind(6)]
#[kani::stub(core::fmt::write, vsupport::fmt_write_stub)]
fn probe_world0() {
        let mut world = World::new();
        world.register::<CA>();
        let e0 = world.create_entity().with(CA(1)).build();
        let e1 = world.create_entity().with(CA(2)).build();
        assert!(world.read_storage::<CA>().get(e1).map(|c| c.0) == Some(2));
        let r = world.delete_entity(e0);
        assert!(r.is_ok());
        std::mem::forget(r);
        assert!(world.read_storage::<CA>().get(e0).is_none());
        assert!(world.read_storage::<CA>().get(e1).map(|c| c.0) == Some(2));
        std::mem::forget(world);
}

pub struct RV {
    pub v: Vec<u64>,
    pub w: Vec<u64>,
}

#[cfg(kani)]
#[kani::proof]
#[kani::unwind(6)]
fn probe_d() {
    let mut world = World::empty();
    world.insert(RV { v: Vec::new(), w: Vec::new() });
    {
        let mut r = world.fetch_mut::<RV>();
        let mut i = 0;
        while i < r.v.len() {
            i += 1;
        }
        r.v.push(3);
        r.w.push(4);
    }
    {
        let r = world.fetch::<RV>();
        let mut i = 0;
        while i < r.v.len() {
            i += 1;
        }
        assert!(i == 1);
    }
    std::mem::forget(world);
}

#[cfg(kani)]
#[kani::proof]
#[kani::unwind(6)]
fn probe_e() {
    let mut world = World::empty();
    world.insert(MetaTable::<dyn AnyStorage>::default());
    world.fetch_mut::<MetaTable<dyn AnyStorage>>().register::<MaskedStorage<CA>>();
    std::mem::forget(world);
}

#[cfg(kani)]
#[kani::proof]
#[kani::unwind(6)]
fn probe_f() {
    let a = shred::ResourceId::new::<u32>();
    let b = shred::ResourceId::new::<u64>();
    let a2 = shred::ResourceId::new::<u32>();
    let mut i = 0;
    while a == b && i < 100 {
        i += 1;
    }
    let mut j = 0;
    while a != a2 && j < 100 {
        j += 1;
    }
    assert!(i == 0 && j == 0);
}

#[cfg(kani)]
#[kani::proof]
#[kani::unwind(6)]
fn probe_g() {
    let mut world = World::empty();
    world.insert(RV { v: Vec::new(), w: Vec::new() });
    let r = world.get_mut::<RV>().unwrap();
    let mut i = 0;
    while i < r.v.len() {
        i += 1;
    }
    assert!(i == 0);
    std::mem::forget(world);
}

#[cfg(kani)]
#[kani::proof]
#[kani::unwind(6)]
fn probe_h() {
    use shred::cell::{AtomicRefCell, AtomicRef};
    let cell: AtomicRefCell<Box<dyn shred::Resource>> = AtomicRefCell::new(Box::new(RV { v: Vec::new(), w: Vec::new() }));
    let b = cell.borrow();
    let m = AtomicRef::map(b, Box::as_ref);
    let r: &RV = unsafe { m.downcast_ref_unchecked() };
    let mut i = 0;
    while i < r.v.len() {
        i += 1;
    }
    assert!(i == 0);
    std::mem::forget(m);
    std::mem::forget(cell);
}

#[cfg(kani)]
#[kani::proof]
#[kani::unwind(6)]
fn probe_i() {
    use shred::cell::{AtomicRefCell, AtomicRef};
    let cell: AtomicRefCell<RV> = AtomicRefCell::new(RV { v: Vec::new(), w: Vec::new() });
    let b = cell.borrow();
    let mut i = 0;
    while i < b.v.len() {
        i += 1;
    }
    assert!(i == 0);
    std::mem::forget(b);
    std::mem::forget(cell);
}

#[cfg(kani)]
#[kani::proof]
#[kani::unwind(6)]
fn probe_j() {
    let mut world = World::empty();
    world.insert(RV { v: Vec::new(), w: Vec::new() });
    let r = world.fetch::<RV>();
    let mut i = 0;
    while i < r.v.len() {
        i += 1;
    }
    assert!(i == 0);
    std::mem::forget(r);
    std::mem::forget(world);
}

#[cfg(kani)]
#[kani::proof]
#[kani::unwind(6)]
fn probe_k() {
    let mut world = World::empty();
    world.insert(RV { v: Vec::new(), w: Vec::new() });
    let r = match world.try_fetch::<RV>() { Some(r) => r, None => return };
    let mut i = 0;
    while i < r.v.len() {
        i += 1;
    }
    assert!(i == 0);
    std::mem::forget(r);
    std::mem::forget(world);
}

#[cfg(kani)]
#[kani::proof]
#[kani::unwind(6)]
fn probe_l() {
    use shred::cell::{AtomicRefCell, AtomicRef};
    let cell: AtomicRefCell<Box<dyn shred::Resource>> = AtomicRefCell::new(Box::new(RV { v: Vec::new(), w: Vec::new() }));
    let r = shred::Fetch::<RV>::verif_from_cell(&cell);
    let mut i = 0;
    while i < r.v.len() {
        i += 1;
    }
    assert!(i == 0);
    std::mem::forget(r);
    std::mem::forget(cell);
}

#[cfg(kani)]
#[kani::proof]
#[kani::unwind(6)]
fn probe_m() {
    let mut world = World::empty();
    world.insert(RV { v: Vec::new(), w: Vec::new() });
    let c = match unsafe { world.try_fetch_internal(shred::ResourceId::new::<RV>()) } { Some(r) => r, None => return };
    let r = shred::Fetch::<RV>::verif_from_cell(c);
    let mut i = 0;
    while i < r.v.len() {
        i += 1;
    }
    assert!(i == 0);
    std::mem::forget(r);
    std::mem::forget(world);
}
