//! Kani harnesses over a REAL multi-resource `World` (`WorldExt` glue of `/repo`):
//!   C05  deleting an entity purges its components from every storage known to the world
//!   C09  maintain applies deferred work exactly once, in order, after merging entities
//!
//! The `World` is shred's own code over the `shred-verif` model's resource table (per-type
//! integer keys, fixed-capacity association list); `WorldExt::new`, `register`, system-data
//! `setup`, `delete_entities`, `delete_all`, `maintain`, `delete_components`, `LazyUpdate` and the
//! `MetaTable` walk are the unmodified `/repo` / shred sources.
#![allow(clippy::needless_range_loop)]

use specs::prelude::*;
use specs::world::{EntitiesRes, Index, VerifSlot};
use vsupport::{harness, nd, witness};

pub mod env;
pub mod purge;
pub mod lazy;

pub use env::*;

include!("variants.rs");

pub fn inc_stub(i: &std::sync::atomic::AtomicUsize) -> Option<usize> {
    use std::sync::atomic::Ordering;
    let p = i.load(Ordering::Relaxed);
    if p == usize::MAX {
        None
    } else {
        i.store(p + 1, Ordering::Relaxed);
        Some(p)
    }
}
pub fn dec_stub(i: &std::sync::atomic::AtomicUsize) -> Option<usize> {
    use std::sync::atomic::Ordering;
    let p = i.load(Ordering::Relaxed);
    if p == 0 {
        None
    } else {
        i.store(p - 1, Ordering::Relaxed);
        Some(p)
    }
}

#[cfg(kani)]
#[kani::proof]
#[kani::unwind(7)]
#[kani::stub(core::fmt::write, vsupport::fmt_write_stub)]
#[kani::stub(specs::world::entity::atomic_increment, inc_stub)]
#[kani::stub(specs::world::entity::atomic_decrement, dec_stub)]
fn x_stub_atomic() {
    let mut world = World::new();
    let _st = pattern_entities_into(&mut world.write_resource::<EntitiesRes>(), [0, 1, 0]);
    let e = world.entities().create();
    let mut i = 0;
    while i < e.id() && i < 5 {
        i += 1;
    }
    assert!(e.id() == 1);
    std::mem::forget(world);
}

#[cfg(kani)]
#[kani::proof]
#[kani::unwind(7)]
#[kani::stub(core::fmt::write, vsupport::fmt_write_stub)]
fn x_nostub_atomic() {
    let mut world = World::new();
    let _st = pattern_entities_into(&mut world.write_resource::<EntitiesRes>(), [0, 1, 0]);
    let e = world.entities().create();
    let mut i = 0;
    while i < e.id() && i < 5 {
        i += 1;
    }
    assert!(e.id() == 1);
    std::mem::forget(world);
}
