//! Kani harnesses over a REAL multi-resource `World` (`WorldExt` glue of `/repo`):
//!   C05  deleting an entity purges its components from every storage known to the world
//!   C09  maintain applies deferred work exactly once, in order, after merging entities
//!
//! The `World` is shred's own code over the `shred-verif` model's resource table (per-type
//! integer keys, fixed-capacity association list); `WorldExt::new`, `register`, system-data
//! `setup`, `delete_entities`, `delete_all`, `maintain`, `delete_components`, `LazyUpdate` and the
//! `MetaTable` walk are the unmodified `/repo` / shred sources.
#![allow(clippy::needless_range_loop)]

use specs::prelude::*;
use specs::world::{EntitiesRes, Index, VerifSlot};
use vsupport::{harness, nd, witness};

pub mod env;
pub mod purge;
pub mod lazy;
pub mod twin;
pub mod wdrop;

pub use env::*;

include!("variants.rs");
