//! Allocator states and component types shared by the world harnesses.

use crate::*;

/// Number of indices in play.
pub const NI: usize = 3;
pub const IDS: [Index; NI] = [0, 1, 2];

/// Component in a `VecStorage`, registered explicitly (`World::register`).
#[derive(Debug, Default, PartialEq, Eq)]
pub struct CA(pub u8);
impl Component for CA {
    type Storage = VecStorage<Self>;
}
/// Component in a `DenseVecStorage`, whose storage is created by system-data setup
/// (`WriteStorage::setup` / `ReadStorage::setup`), never registered explicitly.
#[derive(Debug, Default, PartialEq, Eq)]
pub struct CB(pub u8);
impl Component for CB {
    type Storage = VecStorage<Self>;
}

/// What the allocator says about one index.
#[derive(Clone, Copy)]
pub struct IdxState {
    pub g: i32,
    pub raised: bool,
    pub killed: bool,
}

impl IdxState {
    /// generation of the entity currently occupying the index, if any
    pub fn current(&self) -> Option<i32> {
        if self.g > 0 {
            Some(self.g)
        } else if self.raised {
            Some(1 - self.g)
        } else {
            None
        }
    }
    /// largest generation ever issued for the index
    pub fn mag(&self) -> i32 {
        if self.g > 0 {
            self.g
        } else if self.raised {
            1 - self.g
        } else {
            -self.g
        }
    }
    pub fn occupied(&self) -> bool {
        self.current().is_some()
    }
}

/// An allocator in which the `NI` indices are all alive with generation 1.
pub fn all_alive_into(ent: &mut EntitiesRes) -> [Entity; NI] {
    let mut slots = [VerifSlot { id: 0, gen: 0, alive: false, raised: false, killed: false }; NI];
    for i in 0..NI {
        slots[i] = VerifSlot { id: IDS[i], gen: 1, alive: true, raised: false, killed: false };
    }
    // in place: the resource inside the `World` is never replaced by a moved value
    ent.verif_assign_parts(NI + 1, NI + 1, &slots, &[], 0, 0, NI);
    [Entity::verif_new(0, 1), Entity::verif_new(1, 1), Entity::verif_new(2, 1)]
}

#[allow(dead_code)]
pub fn all_alive() -> (EntitiesRes, [Entity; NI]) {
    let mut slots = [VerifSlot { id: 0, gen: 0, alive: false, raised: false, killed: false }; NI];
    for i in 0..NI {
        slots[i] = VerifSlot { id: IDS[i], gen: 1, alive: true, raised: false, killed: false };
    }
    let ent = EntitiesRes::verif_from_parts(NI + 1, NI + 1, &slots, &[], 0, 0, NI);
    let es = [Entity::verif_new(0, 1), Entity::verif_new(1, 1), Entity::verif_new(2, 1)];
    (ent, es)
}

/// An ARBITRARY allocator state for the `NI` indices (each one: alive with any generation, dead
/// with any generation, or reused and still awaiting maintain; deletion requested or not),
/// consistent with the allocator's representation invariant. The free list is empty and the next
/// never-used index is `NI` (dead indices are simply not yet recycled: a superset of the
/// reachable states as far as the World-level glue is concerned).
pub fn any_entities() -> (EntitiesRes, [IdxState; NI]) {
    let mut slots = [VerifSlot { id: 0, gen: 0, alive: false, raised: false, killed: false }; NI];
    let mut st = [IdxState { g: 0, raised: false, killed: false }; NI];
    for i in 0..NI {
        let g = nd::i32();
        nd::assume(g != 0 && g > -(i32::MAX - 4) && g < i32::MAX - 4);
        let raised = nd::bool();
        nd::assume(!(raised && g > 0));
        let killed = nd::bool();
        nd::assume(!killed || g > 0 || raised);
        slots[i] = VerifSlot { id: IDS[i], gen: g, alive: g > 0, raised, killed };
        st[i] = IdxState { g, raised, killed };
    }
    let ent = EntitiesRes::verif_from_parts(NI + 1, NI + 1, &slots, &[], 0, 0, NI);
    (ent, st)
}

/// An arbitrary handle on index `t` that was issued at some point (generation in `1 ..= mag`);
/// returns it with "is it the current one".
pub fn any_handle(st: &[IdxState; NI], t: usize) -> (Entity, bool) {
    let gen = nd::i32();
    nd::assume(gen >= 1 && gen <= st[t].mag());
    (Entity::verif_new(IDS[t], gen), st[t].current() == Some(gen))
}

/// The current handle of index `i`, if it is occupied.
pub fn current_handle(st: &[IdxState; NI], i: usize) -> Option<Entity> {
    match st[i].current() {
        Some(g) => Some(Entity::verif_new(IDS[i], g)),
        None => None,
    }
}

/// Allocator state whose per-index liveness PATTERN is concrete (`pat[i]`: 0 alive, 1 dead and
/// on the free list, 2 reused and awaiting maintain, 3 alive with deletion requested, 4 reused
/// with deletion requested) and whose generations are arbitrary. The free list holds exactly the
/// dead indices (ascending), the next never-used index is `NI`: the recycle invariant of C17
/// holds, so creations reuse dead indices as they do in a real world.
///
/// (Liveness FLAGS are concrete per query because an allocator with symbolic bit-set membership
/// under a `World` costs CBMC's array theory > 16 GB; the variant generator enumerates patterns.)
pub fn pattern_entities_into(ent: &mut EntitiesRes, pat: [u8; NI]) -> [IdxState; NI] {
    pattern_entities_into_g(ent, pat, false)
}

/// `concrete_gens`: the generations are the constants 3, 5, 7 instead of arbitrary values (used
/// where the operation's effect on the allocator's bit sets must not depend on a symbolic
/// generation comparison; generation arithmetic itself is decided by the allocator harnesses).
pub fn pattern_entities_into_g(ent: &mut EntitiesRes, pat: [u8; NI], concrete_gens: bool) -> [IdxState; NI] {
    let mut slots = [VerifSlot { id: 0, gen: 0, alive: false, raised: false, killed: false }; NI];
    let mut st = [IdxState { g: 0, raised: false, killed: false }; NI];
    let mut cache = [0 as Index; NI];
    let mut nc = 0;
    for i in 0..NI {
        let m = if concrete_gens { 3 + 2 * i as i32 } else { nd::i32() };
        nd::assume(m >= 1 && m < i32::MAX - 4);
        let alive = pat[i] == 0 || pat[i] == 3;
        let raised = pat[i] == 2 || pat[i] == 4;
        let killed = pat[i] == 3 || pat[i] == 4;
        let g = if alive { m } else { -m };
        slots[i] = VerifSlot { id: IDS[i], gen: g, alive, raised, killed };
        st[i] = IdxState { g, raised, killed };
        if pat[i] == 1 {
            cache[nc] = IDS[i];
            nc += 1;
        }
    }
    ent.verif_assign_parts(NI + 1, NI + 1, &slots, &cache[..nc], nc, nc, NI);
    st
}
