//! C20 at World level: two worlds built from the same (symbolic) contents and the same allocator
//! state, driven through the same operations, must return the same handles, results and join
//! orders. CBMC keeps allocation addresses unconstrained and independent per world, and the
//! `ahash` model iterates hash sets in a nondeterministic order chosen independently on every
//! call - so anything observable that depended on an address or on hash iteration order differs
//! between the twins in some execution, and the solver finds it.
//!
//! Natively (counterexample replay against the real, randomly seeded `ahash`) the comparison is
//! repeated with fresh pairs of worlds, because a seed-dependent divergence shows up only with
//! some probability per pair.

use crate::*;
use std::mem::forget;

pub struct Draws {
    pub va: [u8; NI],
    pub ra: [bool; NI],
    pub vb: [u8; NI],
    pub rb: [bool; NI],
}

fn draws() -> Draws {
    let mut d = Draws { va: [0; NI], ra: [false; NI], vb: [0; NI], rb: [false; NI] };
    for i in 0..NI {
        d.va[i] = nd::u8();
        d.ra[i] = nd::bool();
        d.vb[i] = nd::u8();
        d.rb[i] = nd::bool();
    }
    d
}

fn fill_from<T: Component>(world: &World, es: &[Entity; NI], order: [usize; NI], mk: fn(u8) -> T, v: &[u8; NI], rm: &[bool; NI]) {
    let mut s = world.write_storage::<T>();
    for k in 0..NI {
        let i = order[k];
        let r = s.insert(es[i], mk(v[i]));
        assert!(r.is_ok(), "setup insert refused");
        forget(r);
    }
    for k in 0..NI {
        let i = order[NI - 1 - k];
        if rm[i] {
            let r = s.remove(es[i]);
            forget(r);
        }
    }
}

fn build(d: &Draws, pat: [u8; NI]) -> (World, [IdxState; NI]) {
    let mut world = World::new();
    world.register::<CA>();
    world.setup::<WriteStorage<CB>>();
    let es = all_alive_into(&mut world.write_resource::<EntitiesRes>());
    fill_from::<CA>(&world, &es, [0, 1, 2], CA, &d.va, &d.ra);
    fill_from::<CB>(&world, &es, [2, 0, 1], CB, &d.vb, &d.rb);
    let st = pattern_entities_into_g(&mut world.write_resource::<EntitiesRes>(), pat, true);
    (world, st)
}


/// One pair of worlds: batch deletion of the (current) entities at `t` and `u`, then one creation.
fn one_pair(d: &Draws, pat: [u8; NI], t: usize, u: usize, atomic: bool) {
    let (mut x, st) = build(d, pat);
    let (mut y, _) = build(d, pat);
    let mut batch = [Entity::verif_new(0, 1); 2];
    let mut n = 0;
    for &i in [t, u].iter() {
        if let Some(g) = st[i].current() {
            batch[n] = Entity::verif_new(IDS[i], g);
            n += 1;
        }
    }
    let (rx, ry) = (x.delete_entities(&batch[..n]), y.delete_entities(&batch[..n]));
    assert!(rx.is_ok() == ry.is_ok(), "C20: the same batch deletion succeeded in one world and failed in the other");
    forget((rx, ry));
    // the free lists decide every later creation: compare them directly (cheap), then ONE creation
    // in each world (with a diverged free list the new index is symbolic; more operations on it
    // would not finish)
    {
        let (ex, ey) = (x.entities(), y.entities());
        let (cx, cy) = (ex.verif_cache(), ey.verif_cache());
        assert!(ex.verif_cache_len() == ey.verif_cache_len() && cx.len() == cy.len(), "C20: free lists of two identical worlds have different lengths");
        for k in 0..NI {
            if k < cx.len() && k < cy.len() {
                assert!(cx[k] == cy[k], "C20: free lists of two identical worlds differ (later creations return different handles)");
            }
        }
    }
    let (a, b) = if atomic { (x.entities().create(), y.entities().create()) } else { (x.create_entity().build(), y.create_entity().build()) };
    assert!(a == b, "C20: the same creation returned different handles in two identical worlds");
    forget((x, y));
}

pub fn twin_step(pat: [u8; NI], t: usize, u: usize, atomic: bool) {
    let d = draws();
    #[cfg(kani)]
    one_pair(&d, pat, t, u, atomic);
    #[cfg(not(kani))]
    for _ in 0..24 {
        one_pair(&d, pat, t, u, atomic);
    }
    witness!(true, "end reached");
}
