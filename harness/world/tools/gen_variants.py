#!/usr/bin/env python3
"""Generates src/variants.rs for the world harness crate.

Liveness patterns (one digit per index): 0 alive, 1 dead (on the free list), 2 reused and awaiting
maintain, 3 alive with deletion requested, 4 reused with deletion requested. Generations, handle
generations, storage membership and component values are symbolic inside every query."""
import os, itertools
out, names = [], []
def h(name, unwind, body):
    if name in names:
        return
    # core::fmt::write is stubbed out (formatting is never the subject; specs' log::warn! /
    # panic messages otherwise drag the whole formatting machinery into every query)
    out.append("harness! { #[cfg_attr(kani, kani::stub(core::fmt::write, vsupport::fmt_write_stub))] fn %s() unwind(%d) { %s } }" % (name, unwind, body))
    names.append(name)

U = 7
def P(p):
    return "[%d, %d, %d]" % tuple(p)
def pn(p):
    return "p%d%d%d" % tuple(p)
def B(sr):
    return "true" if sr else "false"
def sn(sr):
    return "r" if sr else "w"
ALL = list(itertools.product(range(5), repeat=3))

def delete(tier, sr, t, p):
    h("%s_purge_delete_%s_%s_t%d" % (tier, sn(sr), pn(p), t), U, "purge::step_delete_entity(%d, %s, %s)" % (t, B(sr), P(p)))
def atomic(tier, sr, t, p):
    # arbitrary handle only where the target's deletion is already requested (see purge.rs)
    exact = p[t] not in (3, 4)
    if exact and p[t] == 1:
        return
    h("%s_purge_atomic%s_%s_%s_t%d" % (tier, "x" if exact else "", sn(sr), pn(p), t), U, "purge::step_delete_atomic_maintain(%d, %s, %s, %s)" % (t, B(sr), P(p), B(exact)))
def batch(tier, sr, t, u, p):
    h("%s_purge_batch_%s_%s_t%d_u%d" % (tier, sn(sr), pn(p), t, u), U, "purge::step_delete_entities(%d, %d, %s, %s)" % (t, u, B(sr), P(p)))
def maintain(tier, sr, p):
    h("%s_purge_maintain_%s_%s" % (tier, sn(sr), pn(p)), U, "purge::step_maintain(%s, %s)" % (B(sr), P(p)))
# `g` variants: the generations are the constants 3, 5, 7 (contents, handles' generations and
# everything else stay symbolic). Measured: with symbolic generations `is_alive` branches on a
# symbolic sign, the allocator's bit sets get symbolic membership, and delete_all / a builder on a
# reused index / deferred deletes / lazily built entities that die before maintain cost
# 1-2.5 M symex steps and 12-47 GB; with constant generations the same queries take 25-50 s.
def delall(tier, sr, p, g=True):
    h("%s_purge_all%s_%s_%s" % (tier, "g" if g else "", sn(sr), pn(p)), U, "purge::step_delete_all_g(%s, %s, %s)" % (B(sr), P(p), B(g)))
def builder(tier, sr, p, g=False):
    h("%s_purge_builder%s_%s_%s" % (tier, "g" if g else "", sn(sr), pn(p)), U, "purge::step_builder_dropped_g(%s, %s, %s)" % (B(sr), P(p), B(g)))
def create(tier, sr, k, p):
    h("%s_purge_create%d_%s_%s" % (tier, k, sn(sr), pn(p)), U, "purge::step_create(%d, %s, %s)" % (k, B(sr), P(p)))

# ---- quick tier (every variant below was measured: 25-250 s, < 9 GB)
for p in range(5):
    delete("q", False, 1, (0, p, 3))
delete("q", False, 1, (2, 0, 1))
delete("q", True, 1, (0, 0, 3))
for (t, u, p) in [(0, 1, (0, 0, 3)), (0, 1, (0, 1, 0)), (0, 1, (1, 0, 2))]:
    batch("q", False, t, u, p)
batch("q", True, 0, 1, (0, 1, 0))
for p in [(0, 0, 3), (0, 2, 1), (0, 3, 0), (3, 4, 0)]:
    atomic("q", False, 1, p)
for p in [(3, 0, 4), (0, 3, 2), (4, 1, 3), (2, 2, 0), (3, 3, 3), (0, 0, 0), (1, 4, 0)]:
    maintain("q", False, p)
maintain("q", True, (3, 0, 4))
# delete_all: with symbolic generations > 1 M symex steps and 19 GB; `g` variants only
for p in [(0, 2, 3), (1, 0, 4), (2, 2, 2), (0, 0, 0), (3, 1, 2)]:
    delall("q", False, p)
delall("q", True, (0, 2, 3))
delall("x", False, (1, 0, 1), g=False)
# a dropped builder: patterns WITHOUT a dead index (the builder's entity then takes the next unused
# index, a constant; with a dead index on the free list the index that comes out of the
# allocator's Option-returning pop is symbolic for CBMC and builder + 2 inserts + deferred delete
# + maintain on a symbolic index exceeds 16 GB)
for p in [(0, 2, 4), (0, 3, 0)]:
    builder("q", False, p)
for p in [(0, 3, 1), (1, 1, 1), (2, 1, 4)]:
    builder("q", False, p, g=True)
builder("x", False, (0, 3, 1))
for k in range(5):
    create("q", False, k, (1, 0, 3))
create("q", False, 0, (0, 2, 0))
create("q", False, 1, (0, 2, 0))
create("q", True, 0, (2, 1, 1))
create("q", False, 1, (4, 3, 1))
# measured heavy (> 16 GB): kept for manual runs
batch("x", False, 1, 1, (3, 0, 2))

# ---- thorough tier (adds to the quick tier; sized so that it can be validated in one sitting)
NB = [(0, 3), (2, 1), (4, 0)]
for t in range(3):
    for p in range(5):
        for (a, b) in NB:
            pat = [a, b]
            pat.insert(t, p)
            delete("t", False, t, tuple(pat))
for t in (0, 2):
    for p in (0, 1, 3):
        atomic("t", False, t, tuple([0, 3][:t] + [p] + [0, 3][t:]))
PB = [(0, 0, 3), (0, 1, 0), (1, 0, 2), (0, 3, 2), (0, 0, 0), (3, 3, 0)]
for (t, u) in [(1, 0), (2, 0), (0, 2), (1, 2)]:
    for p in PB[:3]:
        batch("t", False, t, u, p)
for i, p in enumerate(ALL):
    if i % 5 == 0:
        maintain("t", False, p)
    if i % 9 == 3:
        builder("t", False, p, g=(1 in p))
    if i % 7 == 1:
        delall("t", False, p)
    if i % 8 == 3:
        create("t", False, i % 5, p)
for p in PB:
    maintain("t", True, p)
    delete("t", True, 1, p)
# ---- C09: lazy actions (kind: 0 insert A, 1 remove A, 2 insert B, 3 observer, 4 nested, 5 lazy builder, 6 lazy builder + deferred delete, 7 lazy builder + immediate delete)
def lazy(tier, sr, acts, p, g=False):
    a = list(acts) + [(255, 0)] * (3 - len(acts))
    nm = "".join("%d%d" % (k, t) for (k, t) in acts)
    g = g or any(k in (6, 7) for (k, t) in acts)   # kinds 6 / 7 only with constant generations
    h("%s_lazy%s_%s_%s_a%s" % (tier, "g" if g else "", sn(sr), pn(p), nm), U, "lazy::lazy_step_g([%s], %s, %s, %s)" % (", ".join("(%d, %d)" % x for x in a), B(sr), P(p), B(g)))

QL = [
    ([(3, 0), (0, 1)], (4, 0, 2)),       # observer, then insert on a live entity; pending delete + pending create
    ([(0, 1), (0, 1)], (0, 3, 0)),       # two inserts on an entity whose deletion is pending: both skipped
    ([(0, 1), (1, 1)], (2, 0, 3)),       # insert then remove on the same live entity
    ([(1, 1), (0, 1)], (0, 2, 1)),       # remove then insert on an atomically created entity
    ([(4, 0), (3, 0)], (3, 2, 0)),       # nested action runs after the observer queued after it
    ([(5, 0), (3, 0)], (0, 1, 4)),       # lazily built entity reusing the dead index 1
    ([(5, 0), (0, 2)], (0, 0, 3)),       # lazily built entity on a fresh index; insert on a killed one
    ([(2, 2), (3, 0)], (1, 3, 0)),       # insert into the setup-created storage
    ([(3, 0), (4, 0), (0, 1)], (2, 0, 4)),
    ([(0, 0), (1, 1), (2, 2)], (0, 0, 0)),
    # kinds 6 / 7: a lazily built entity that is DEAD when its queued insertion runs (deferred or
    # immediate delete before maintain); with symbolic generations 2.4 M symex steps, > 12 GB
    ([(7, 0), (3, 0)], (0, 1, 2)),
    ([(6, 0), (3, 0)], (0, 1, 2)),
    ([(3, 0), (7, 0)], (1, 1, 0)),
    ([(6, 0), (0, 1)], (0, 0, 3)),
]
for acts, p in QL:
    lazy("q", False, acts, p)
lazy("q", True, [(2, 1), (3, 0)], (0, 0, 3))
PL = [(0, 0, 0), (4, 0, 2), (0, 3, 1), (2, 2, 3), (1, 4, 0), (3, 0, 2)]
for k0 in range(8):
    for k1 in range(8):
        for t1 in (0, 1):
            p = PL[(k0 * 8 + k1 + t1) % len(PL)]
            lazy("t", False, [(k0, 1), (k1, t1)], p)
# ---- C20 at World level: twin worlds (constant generations)
def twin(tier, p, t, u, atomic=False):
    h("%s_twin_%s_t%d_u%d%s" % (tier, pn(p), t, u, "_a" if atomic else ""), U, "twin::twin_step(%s, %d, %d, %s)" % (P(p), t, u, B(atomic)))
twin("q", (0, 0, 1), 0, 1)      # two indices freed while one is already on the free list
twin("q", (1, 0, 0), 2, 1, True)
twin("t", (0, 0, 0), 0, 2)
twin("t", (3, 0, 1), 1, 0)
twin("t", (2, 0, 1), 0, 1)
# ---- C08 at World level: purge + teardown with drop-counting tokens (constant generations)
def wdrop(tier, op, t, p):
    h("%s_wdrop_o%d_t%d_%s" % (tier, op, t, pn(p)), 10, "wdrop::wdrop_step(%d, %d, %s)" % (op, t, P(p)))
wdrop("q", 0, 1, (0, 0, 3))
wdrop("q", 1, 1, (0, 2, 0))
wdrop("q", 2, 0, (0, 2, 3))
wdrop("q", 3, 1, (0, 0, 0))
wdrop("t", 4, 0, (3, 0, 2))
wdrop("t", 0, 2, (0, 0, 0))
wdrop("t", 1, 0, (0, 3, 0))
wdrop("t", 2, 0, (0, 0, 0))
src = "// GENERATED by tools/gen_variants.py -- do not edit\n" + "\n".join(out) + "\n\npub const REGISTRY: &[(&str, fn())] = &[\n"
for n in names:
    src += '    ("%s", %s as fn()),\n' % (n, n)
src += "];\n"
open(os.path.join(os.path.dirname(os.path.abspath(__file__)), "..", "src", "variants.rs"), "w").write(src)
print(len(names), "harnesses,", sum(1 for n in names if n.startswith("q_")), "quick")
