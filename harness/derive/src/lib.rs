//! C18: derived save/load conversions behave as field-wise definitions, and
//! the derived component declaration selects the requested storage.
//!
//! The derive macros run inside rustc, so what the solver executes is the code
//! they GENERATE, for a catalogue of type shapes (named / tuple / nested /
//! generic / enums with unit, tuple and struct variants / skip-convert fields /
//! two same-typed fields and two same-shaped variants, so that a swapped field
//! or variant still type-checks). The types below are expanded by the real
//! `/repo/specs-derive` on every run. Per shape: arbitrary field values,
//! arbitrary entity handles among three, an arbitrary injective
//! entity <-> marker mapping; `convert_from(convert_into(x)) == x`, entity
//! fields went through the mapping, skip fields were cloned untouched, the
//! variant is preserved.
#![allow(clippy::needless_range_loop)]

use serde::{Deserialize, Serialize};
use specs::prelude::*;
use specs::saveload::{ConvertSaveload, Marker, MarkerAllocator};
use specs::storage::{BTreeStorage, DefaultVecStorage, FlaggedStorage, HashMapStorage};
use specs::{Component, ConvertSaveload};
use vsupport::{harness, nd, witness};

// ---------------------------------------------------------------- marker
#[derive(Clone, Copy, Debug, PartialEq, Eq, Hash, Serialize, Deserialize)]
pub struct Mk(pub u8);
impl specs::Component for Mk {
    type Storage = VecStorage<Self>;
}
#[derive(Default)]
pub struct MkAlloc;
impl MarkerAllocator<Mk> for MkAlloc {
    fn allocate(&mut self, _: Entity, id: Option<u8>) -> Mk {
        Mk(id.unwrap_or(0))
    }
    fn retrieve_entity_internal(&self, _: u8) -> Option<Entity> {
        None
    }
    fn maintain(&mut self, _: &specs::world::EntitiesRes, _: &ReadStorage<Mk>) {}
}
impl Marker for Mk {
    type Allocator = MkAlloc;
    type Identifier = u8;
    fn id(&self) -> u8 {
        self.0
    }
}

// ---------------------------------------------------------------- mapping
pub const NE: usize = 3;

/// Three entity handles (arbitrary generations) and an arbitrary injective
/// marker assignment.
pub struct Map {
    pub es: [Entity; NE],
    pub ms: [u8; NE],
}

impl Map {
    pub fn any() -> Map {
        let mut es = [Entity::verif_new(0, 1); NE];
        let mut ms = [0u8; NE];
        for i in 0..NE {
            let g = nd::i32();
            nd::assume(g >= 1);
            es[i] = Entity::verif_new(i as u32, g);
            ms[i] = nd::u8();
        }
        nd::assume(ms[0] != ms[1] && ms[0] != ms[2] && ms[1] != ms[2]);
        Map { es, ms }
    }
    pub fn pick(&self) -> Entity {
        let k = nd::below(NE as u8);
        let mut e = self.es[0];
        for i in 0..NE {
            if i as u8 == k {
                e = self.es[i];
            }
        }
        e
    }
    pub fn to_marker(&self, e: Entity) -> Option<Mk> {
        let mut r = None;
        for i in 0..NE {
            if self.es[i] == e {
                r = Some(Mk(self.ms[i]));
            }
        }
        r
    }
    pub fn to_entity(&self, m: Mk) -> Option<Entity> {
        let mut r = None;
        for i in 0..NE {
            if self.ms[i] == m.0 {
                r = Some(self.es[i]);
            }
        }
        r
    }
}

/// Round trip through the derived conversion.
pub fn round_trip<T>(x: &T, map: &Map) -> (T::Data, T)
where
    T: ConvertSaveload<Mk, Error = std::convert::Infallible>,
    T::Data: Clone,
{
    let data = match x.convert_into(|e| map.to_marker(e)) {
        Ok(d) => d,
        Err(e) => match e {},
    };
    let back = match T::convert_from(data.clone(), |m| map.to_entity(m)) {
        Ok(b) => b,
        Err(e) => match e {},
    };
    (data, back)
}

pub mod shapes;
pub use shapes::*;
