fn main() {
    vsupport::replay_main(h_derive::REGISTRY)
}
