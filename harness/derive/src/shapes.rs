//! The catalogue of derived shapes and one harness each.

use crate::*;

// ---- struct shapes ---------------------------------------------------------
#[derive(ConvertSaveload, Clone, PartialEq, Debug)]
pub struct Named1 {
    e: Entity,
}
#[derive(ConvertSaveload, Clone, PartialEq, Debug)]
pub struct Named3 {
    a: u8,
    e: Entity,
    b: bool,
}
/// two same-typed entity fields and two same-typed plain fields (swaps type-check)
#[derive(ConvertSaveload, Clone, PartialEq, Debug)]
pub struct NamedSame {
    e1: Entity,
    e2: Entity,
    x: u8,
    y: u8,
}
#[derive(ConvertSaveload, Clone, PartialEq, Debug)]
pub struct NamedSkip {
    e: Entity,
    #[convert_save_load_skip_convert]
    raw: u8,
    #[convert_save_load_skip_convert]
    flag: bool,
}
#[derive(ConvertSaveload, Clone, PartialEq, Debug)]
pub struct Tuple1(Entity);
#[derive(ConvertSaveload, Clone, PartialEq, Debug)]
pub struct Tuple3(Entity, u8, Entity);
#[derive(ConvertSaveload, Clone, PartialEq, Debug)]
pub struct TupleSkip(#[convert_save_load_skip_convert] u8, Entity, #[convert_save_load_skip_convert] u8);
/// a skip field BEFORE a converted field of the same type (reordering type-checks)
#[derive(ConvertSaveload, Clone, PartialEq, Debug)]
pub struct TupleSkipMid(Entity, #[convert_save_load_skip_convert] u8, u8, Entity);
#[derive(ConvertSaveload, Clone, PartialEq, Debug)]
pub struct NamedSkipMid {
    #[convert_save_load_skip_convert]
    s: u8,
    a: u8,
    e: Entity,
    #[convert_save_load_skip_convert]
    s2: u8,
    b: u8,
}
#[derive(ConvertSaveload, Clone, PartialEq, Debug)]
pub struct Nested {
    inner: Named3,
    t: Tuple3,
    z: u8,
}
#[derive(ConvertSaveload, Clone, PartialEq, Debug)]
pub struct Generic<T: Clone + PartialEq + std::fmt::Debug> {
    e: Entity,
    v: T,
}
#[derive(ConvertSaveload, Clone, PartialEq, Debug)]
#[convert_save_load_attr(derive(Debug))]
pub struct Forwarded {
    #[convert_save_load_attr(serde(rename = "ent"))]
    e: Entity,
    k: u8,
}

// ---- enum shapes -----------------------------------------------------------
#[derive(ConvertSaveload, Clone, PartialEq, Debug)]
pub enum EnumAll {
    Unit,
    Tup(Entity, u8),
    Str { e: Entity, k: u8 },
}
/// two same-shaped variants (a swapped arm still type-checks)
#[derive(ConvertSaveload, Clone, PartialEq, Debug)]
pub enum EnumSame {
    A(Entity, u8),
    B(Entity, u8),
    C { e: Entity },
    D { e: Entity },
    U1,
    U2,
}
/// variants with skip fields among same-typed fields
#[derive(ConvertSaveload, Clone, PartialEq, Debug)]
pub enum EnumSkip {
    T(#[convert_save_load_skip_convert] u8, u8, Entity),
    S {
        a: u8,
        #[convert_save_load_skip_convert]
        s: u8,
        e: Entity,
    },
}
#[derive(ConvertSaveload, Clone, PartialEq, Debug)]
pub enum EnumNested {
    N(Named3),
    T(Tuple3, u8),
    S { inner: EnumAll, e: Entity },
}

// ---- derived Component declarations: checked by rustc while building ---------
#[derive(Component)]
pub struct CompDefault(u8);
#[derive(Component)]
#[storage(VecStorage)]
pub struct CompVec(u8);
#[derive(Component)]
#[storage(HashMapStorage<Self>)]
pub struct CompHashExplicit(u8);
#[derive(Component, Default)]
#[storage(DefaultVecStorage)]
pub struct CompDefaultVec(u8);
#[derive(Component)]
#[storage(BTreeStorage)]
pub struct CompBTree(u8);
#[derive(Component, Default)]
#[storage(NullStorage)]
pub struct CompNull;
#[derive(Component)]
#[storage(FlaggedStorage<Self, VecStorage<Self>>)]
pub struct CompFlagged(u8);
#[derive(Component)]
pub struct CompGeneric<T: Send + Sync + 'static>(T);

fn _storage_is<C: specs::Component<Storage = S>, S>() {}
#[allow(dead_code)]
fn _component_storages() {
    _storage_is::<CompDefault, DenseVecStorage<CompDefault>>();
    _storage_is::<CompVec, VecStorage<CompVec>>();
    _storage_is::<CompHashExplicit, HashMapStorage<CompHashExplicit>>();
    _storage_is::<CompDefaultVec, DefaultVecStorage<CompDefaultVec>>();
    _storage_is::<CompBTree, BTreeStorage<CompBTree>>();
    _storage_is::<CompNull, NullStorage<CompNull>>();
    _storage_is::<CompFlagged, FlaggedStorage<CompFlagged, VecStorage<CompFlagged>>>();
    _storage_is::<CompGeneric<u8>, DenseVecStorage<CompGeneric<u8>>>();
}

// ---- harness bodies --------------------------------------------------------------
fn mk_named3(map: &Map) -> Named3 {
    Named3 { a: nd::u8(), e: map.pick(), b: nd::bool() }
}
fn mk_tuple3(map: &Map) -> Tuple3 {
    Tuple3(map.pick(), nd::u8(), map.pick())
}
fn mk_enum_all(map: &Map) -> EnumAll {
    match nd::below(3) {
        0 => EnumAll::Unit,
        1 => EnumAll::Tup(map.pick(), nd::u8()),
        _ => EnumAll::Str { e: map.pick(), k: nd::u8() },
    }
}
fn mkr(map: &Map, e: Entity) -> Mk {
    map.to_marker(e).unwrap()
}

pub fn rt_named1() {
    let map = Map::any();
    let x = Named1 { e: map.pick() };
    let (d, y) = round_trip(&x, &map);
    assert!(d.e == mkr(&map, x.e), "C18: entity field not mapped through the marker mapping");
    assert!(y == x, "C18: derived conversion does not round-trip");
    witness!(true, "derive: reached end");
}
pub fn rt_named3() {
    let map = Map::any();
    let x = mk_named3(&map);
    let (d, y) = round_trip(&x, &map);
    assert!(d.a == x.a && d.b == x.b, "C18: plain field not converted by its own (identity) conversion");
    assert!(d.e == mkr(&map, x.e), "C18: entity field not mapped through the marker mapping");
    assert!(y == x, "C18: derived conversion does not round-trip");
    witness!(true, "derive: reached end");
}
pub fn rt_named_same() {
    let map = Map::any();
    let x = NamedSame { e1: map.pick(), e2: map.pick(), x: nd::u8(), y: nd::u8() };
    let (d, y) = round_trip(&x, &map);
    assert!(d.e1 == mkr(&map, x.e1) && d.e2 == mkr(&map, x.e2), "C18: entity fields swapped or not mapped");
    assert!(d.x == x.x && d.y == x.y, "C18: plain fields swapped");
    assert!(y == x, "C18: derived conversion does not round-trip");
    witness!(x.e1 != x.e2 && x.x != x.y, "derive: distinguishable same-typed fields");
}
pub fn rt_named_skip() {
    let map = Map::any();
    let x = NamedSkip { e: map.pick(), raw: nd::u8(), flag: nd::bool() };
    let (d, y) = round_trip(&x, &map);
    assert!(d.raw == x.raw && d.flag == x.flag, "C18: skip field was not cloned untouched");
    assert!(d.e == mkr(&map, x.e), "C18: entity field not mapped through the marker mapping");
    assert!(y == x, "C18: derived conversion does not round-trip");
    witness!(true, "derive: reached end");
}
pub fn rt_tuple1() {
    let map = Map::any();
    let x = Tuple1(map.pick());
    let (d, y) = round_trip(&x, &map);
    assert!(d.0 == mkr(&map, x.0), "C18: entity field not mapped through the marker mapping");
    assert!(y == x, "C18: derived conversion does not round-trip");
    witness!(true, "derive: reached end");
}
pub fn rt_tuple3() {
    let map = Map::any();
    let x = mk_tuple3(&map);
    let (d, y) = round_trip(&x, &map);
    assert!(d.0 == mkr(&map, x.0) && d.2 == mkr(&map, x.2) && d.1 == x.1, "C18: tuple fields swapped or not mapped");
    assert!(y == x, "C18: derived conversion does not round-trip");
    witness!(x.0 != x.2, "derive: distinguishable same-typed fields");
}
pub fn rt_tuple_skip() {
    let map = Map::any();
    let x = TupleSkip(nd::u8(), map.pick(), nd::u8());
    let (d, y) = round_trip(&x, &map);
    assert!(d.0 == x.0 && d.2 == x.2, "C18: skip field was not cloned untouched");
    assert!(d.1 == mkr(&map, x.1), "C18: entity field not mapped through the marker mapping");
    assert!(y == x, "C18: derived conversion does not round-trip");
    witness!(x.0 != x.2, "derive: distinguishable skip fields");
}
pub fn rt_tuple_skip_mid() {
    let map = Map::any();
    let x = TupleSkipMid(map.pick(), nd::u8(), nd::u8(), map.pick());
    let (d, y) = round_trip(&x, &map);
    assert!(d.1 == x.1 && d.2 == x.2, "C18: skip / plain tuple fields swapped or changed");
    assert!(d.0 == mkr(&map, x.0) && d.3 == mkr(&map, x.3), "C18: entity field not mapped through the marker mapping");
    assert!(y == x, "C18: derived conversion does not round-trip");
    witness!(x.1 != x.2 && x.0 != x.3, "derive: distinguishable same-typed fields");
}
pub fn rt_named_skip_mid() {
    let map = Map::any();
    let x = NamedSkipMid { s: nd::u8(), a: nd::u8(), e: map.pick(), s2: nd::u8(), b: nd::u8() };
    let (d, y) = round_trip(&x, &map);
    assert!(d.s == x.s && d.s2 == x.s2 && d.a == x.a && d.b == x.b, "C18: skip / plain fields swapped or changed");
    assert!(d.e == mkr(&map, x.e), "C18: entity field not mapped through the marker mapping");
    assert!(y == x, "C18: derived conversion does not round-trip");
    witness!(x.s != x.a && x.s2 != x.b, "derive: distinguishable same-typed fields");
}
pub fn rt_enum_skip() {
    let map = Map::any();
    let x = if nd::bool() {
        EnumSkip::T(nd::u8(), nd::u8(), map.pick())
    } else {
        EnumSkip::S { a: nd::u8(), s: nd::u8(), e: map.pick() }
    };
    let (d, y) = round_trip(&x, &map);
    let ok = match (&x, &d) {
        (EnumSkip::T(s, a, e), EnumSkipSaveloadData::T(s2, a2, m)) => s == s2 && a == a2 && *m == mkr(&map, *e),
        (EnumSkip::S { a, s, e }, EnumSkipSaveloadData::S { a: a2, s: s2, e: m }) => s == s2 && a == a2 && *m == mkr(&map, *e),
        _ => false,
    };
    assert!(ok, "C18: variant fields (with skip fields) not converted field-wise");
    assert!(y == x, "C18: derived conversion does not round-trip");
    witness!(matches!(x, EnumSkip::T(..)), "derive: tuple variant with a skip field");
}
pub fn rt_nested() {
    let map = Map::any();
    let x = Nested { inner: mk_named3(&map), t: mk_tuple3(&map), z: nd::u8() };
    let (d, y) = round_trip(&x, &map);
    assert!(d.inner.e == mkr(&map, x.inner.e) && d.inner.a == x.inner.a, "C18: nested field not converted with its own conversion");
    assert!(d.t.0 == mkr(&map, x.t.0) && d.t.2 == mkr(&map, x.t.2), "C18: nested tuple field not converted with its own conversion");
    assert!(d.z == x.z, "C18: plain field changed");
    assert!(y == x, "C18: derived conversion does not round-trip");
    witness!(true, "derive: reached end");
}
pub fn rt_generic() {
    let map = Map::any();
    let x = Generic::<u8> { e: map.pick(), v: nd::u8() };
    let (d, y) = round_trip(&x, &map);
    assert!(d.e == mkr(&map, x.e) && d.v == x.v, "C18: generic struct fields not converted field-wise");
    assert!(y == x, "C18: derived conversion does not round-trip");
    // a generic parameter that itself needs conversion
    let x2 = Generic::<Tuple1> { e: map.pick(), v: Tuple1(map.pick()) };
    let (d2, y2) = round_trip(&x2, &map);
    assert!(d2.v.0 == mkr(&map, x2.v.0), "C18: generic field not converted with its own conversion");
    assert!(y2 == x2, "C18: derived conversion does not round-trip");
    witness!(true, "derive: reached end");
}
pub fn rt_forwarded() {
    let map = Map::any();
    let x = Forwarded { e: map.pick(), k: nd::u8() };
    let (d, y) = round_trip(&x, &map);
    assert!(d.e == mkr(&map, x.e) && d.k == x.k, "C18: fields of a struct with forwarded attributes not converted field-wise");
    assert!(y == x, "C18: derived conversion does not round-trip");
    witness!(true, "derive: reached end");
}
pub fn rt_enum_all() {
    let map = Map::any();
    let x = mk_enum_all(&map);
    let (d, y) = round_trip(&x, &map);
    match (&x, &d) {
        (EnumAll::Unit, EnumAllSaveloadData::Unit) => {}
        (EnumAll::Tup(e, k), EnumAllSaveloadData::Tup(m, k2)) => {
            assert!(*m == mkr(&map, *e) && k == k2, "C18: tuple variant fields not converted field-wise")
        }
        (EnumAll::Str { e, k }, EnumAllSaveloadData::Str { e: m, k: k2 }) => {
            assert!(*m == mkr(&map, *e) && k == k2, "C18: struct variant fields not converted field-wise")
        }
        _ => assert!(false, "C18: variant not preserved by the derived conversion"),
    }
    assert!(y == x, "C18: derived conversion does not round-trip");
    witness!(matches!(x, EnumAll::Str { .. }), "derive: struct variant");
    witness!(matches!(x, EnumAll::Unit), "derive: unit variant");
}
pub fn rt_enum_same() {
    let map = Map::any();
    let x = match nd::below(6) {
        0 => EnumSame::A(map.pick(), nd::u8()),
        1 => EnumSame::B(map.pick(), nd::u8()),
        2 => EnumSame::C { e: map.pick() },
        3 => EnumSame::D { e: map.pick() },
        4 => EnumSame::U1,
        _ => EnumSame::U2,
    };
    let (d, y) = round_trip(&x, &map);
    let same_variant = match (&x, &d) {
        (EnumSame::A(e, k), EnumSameSaveloadData::A(m, k2)) => *m == mkr(&map, *e) && k == k2,
        (EnumSame::B(e, k), EnumSameSaveloadData::B(m, k2)) => *m == mkr(&map, *e) && k == k2,
        (EnumSame::C { e }, EnumSameSaveloadData::C { e: m }) => *m == mkr(&map, *e),
        (EnumSame::D { e }, EnumSameSaveloadData::D { e: m }) => *m == mkr(&map, *e),
        (EnumSame::U1, EnumSameSaveloadData::U1) => true,
        (EnumSame::U2, EnumSameSaveloadData::U2) => true,
        _ => false,
    };
    assert!(same_variant, "C18: variant not preserved (or fields not mapped) by the derived conversion");
    assert!(y == x, "C18: derived conversion does not round-trip");
    witness!(matches!(x, EnumSame::B(..)), "derive: second of two same-shaped variants");
}
pub fn rt_enum_nested() {
    let map = Map::any();
    let x = match nd::below(3) {
        0 => EnumNested::N(mk_named3(&map)),
        1 => EnumNested::T(mk_tuple3(&map), nd::u8()),
        _ => EnumNested::S { inner: mk_enum_all(&map), e: map.pick() },
    };
    let (_d, y) = round_trip(&x, &map);
    assert!(y == x, "C18: derived conversion does not round-trip");
    witness!(matches!(x, EnumNested::S { .. }), "derive: nested enum variant");
}

harness! { fn q_rt_named1() unwind(5) { rt_named1() } }
harness! { fn q_rt_named3() unwind(5) { rt_named3() } }
harness! { fn q_rt_named_same() unwind(5) { rt_named_same() } }
harness! { fn q_rt_named_skip() unwind(5) { rt_named_skip() } }
harness! { fn q_rt_tuple1() unwind(5) { rt_tuple1() } }
harness! { fn q_rt_tuple3() unwind(5) { rt_tuple3() } }
harness! { fn q_rt_tuple_skip() unwind(5) { rt_tuple_skip() } }
harness! { fn q_rt_tuple_skip_mid() unwind(5) { rt_tuple_skip_mid() } }
harness! { fn q_rt_named_skip_mid() unwind(5) { rt_named_skip_mid() } }
harness! { fn q_rt_enum_skip() unwind(5) { rt_enum_skip() } }
harness! { fn q_rt_nested() unwind(5) { rt_nested() } }
harness! { fn q_rt_generic() unwind(5) { rt_generic() } }
harness! { fn q_rt_forwarded() unwind(5) { rt_forwarded() } }
harness! { fn q_rt_enum_all() unwind(5) { rt_enum_all() } }
harness! { fn q_rt_enum_same() unwind(5) { rt_enum_same() } }
harness! { fn q_rt_enum_nested() unwind(5) { rt_enum_nested() } }

pub const REGISTRY: &[(&str, fn())] = &[
    ("q_rt_named1", q_rt_named1), ("q_rt_named3", q_rt_named3), ("q_rt_named_same", q_rt_named_same),
    ("q_rt_named_skip", q_rt_named_skip), ("q_rt_tuple1", q_rt_tuple1), ("q_rt_tuple3", q_rt_tuple3),
    ("q_rt_tuple_skip", q_rt_tuple_skip), ("q_rt_nested", q_rt_nested), ("q_rt_generic", q_rt_generic),
    ("q_rt_forwarded", q_rt_forwarded), ("q_rt_enum_all", q_rt_enum_all), ("q_rt_enum_same", q_rt_enum_same),
    ("q_rt_enum_nested", q_rt_enum_nested), ("q_rt_tuple_skip_mid", q_rt_tuple_skip_mid), ("q_rt_named_skip_mid", q_rt_named_skip_mid),
    ("q_rt_enum_skip", q_rt_enum_skip),
];
