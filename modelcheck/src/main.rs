//! usage: modelcheck <seed> <rounds>
//! Runs the same pseudo-random operation stream against a dependency model and
//! the real crate and compares every observable. Exit 0 = all agree.

struct Rng(u64);
impl Rng {
    fn next(&mut self) -> u64 {
        let mut x = self.0;
        x ^= x << 13;
        x ^= x >> 7;
        x ^= x << 17;
        self.0 = x;
        x
    }
    fn below(&mut self, n: u64) -> u64 {
        (self.next() >> 11) % n
    }
}

fn check_bitsets(rng: &mut Rng, rounds: usize) {
    use hibitset_model as m;
    use hibitset_real as r;
    use m::BitSetLike as MB;
    use r::BitSetLike as RB;
    let cap = m::VERIF_MODEL_CAP_IDS as u64;
    for _ in 0..rounds {
        let (mut ms, mut rs) = (m::BitSet::new(), r::BitSet::new());
        let (mut ma, mut ra) = (m::AtomicBitSet::new(), r::AtomicBitSet::new());
        let (mut ms2, mut rs2) = (m::BitSet::new(), r::BitSet::new());
        for _ in 0..40 {
            let id = rng.below(cap) as u32;
            match rng.below(9) {
                0 | 1 => assert_eq!(ms.add(id), rs.add(id), "BitSet::add"),
                2 => assert_eq!(ms.remove(id), rs.remove(id), "BitSet::remove"),
                3 => assert_eq!(ma.add(id), ra.add(id), "AtomicBitSet::add"),
                4 => assert_eq!(ma.add_atomic(id), ra.add_atomic(id), "AtomicBitSet::add_atomic"),
                5 => assert_eq!(ma.remove(id), ra.remove(id), "AtomicBitSet::remove"),
                6 => assert_eq!(ms2.add(id), rs2.add(id), "BitSet2::add"),
                7 => {
                    if rng.below(8) == 0 {
                        ms.clear();
                        rs.clear();
                    }
                    if rng.below(8) == 0 {
                        ma.clear();
                        ra.clear();
                    }
                }
                _ => {
                    // reads, also beyond the model's capacity (must answer like an empty region)
                    let far = id + cap as u32 * (1 + rng.below(3) as u32);
                    assert_eq!(ms.contains(far), rs.contains(far));
                    assert_eq!(ma.contains(far), ra.contains(far));
                    assert_eq!(ms.remove(far), rs.remove(far));
                }
            }
            assert_eq!(ms.contains(id), rs.contains(id));
            assert_eq!(ma.contains(id), ra.contains(id));
        }
        // observables: layers, iteration, combinators
        assert_eq!(MB::layer3(&ms), RB::layer3(&rs));
        assert_eq!(MB::layer3(&ma), RB::layer3(&ra));
        for i in 0..4 {
            assert_eq!(MB::layer2(&ms, i), RB::layer2(&rs, i));
            assert_eq!(MB::layer2(&ma, i), RB::layer2(&ra, i));
            assert_eq!(MB::layer1(&ms, i), RB::layer1(&rs, i));
            assert_eq!(MB::layer1(&ma, i), RB::layer1(&ra, i));
        }
        for i in 0..(cap as usize / 64 + 3) {
            assert_eq!(MB::layer0(&ms, i), RB::layer0(&rs, i));
            assert_eq!(MB::layer0(&ma, i), RB::layer0(&ra, i));
        }
        assert_eq!((&ms).iter().collect::<Vec<_>>(), (&rs).iter().collect::<Vec<_>>());
        assert_eq!((&ma).iter().collect::<Vec<_>>(), (&ra).iter().collect::<Vec<_>>());
        assert_eq!(MB::is_empty(&ms), RB::is_empty(&rs));
        assert_eq!(
            m::BitSetAnd(&ms, &ms2).iter().collect::<Vec<_>>(),
            r::BitSetAnd(&rs, &rs2).iter().collect::<Vec<_>>()
        );
        assert_eq!(
            m::BitSetOr(&ms, &ma).iter().collect::<Vec<_>>(),
            r::BitSetOr(&rs, &ra).iter().collect::<Vec<_>>()
        );
        assert_eq!(
            m::BitSetXor(&ms, &ms2).iter().collect::<Vec<_>>(),
            r::BitSetXor(&rs, &rs2).iter().collect::<Vec<_>>()
        );
        assert_eq!(
            m::BitSetAnd(&ms, m::BitSetNot(&ms2)).iter().collect::<Vec<_>>(),
            r::BitSetAnd(&rs, r::BitSetNot(&rs2)).iter().collect::<Vec<_>>()
        );
        assert_eq!(ms.clone() == ms, true);
        assert_eq!(ms == ms2, rs == rs2);
    }
}

fn check_shrev(rng: &mut Rng, rounds: usize) {
    for _ in 0..rounds {
        let mut mc = shrev_model::EventChannel::<u32>::new();
        let mut rc = shrev_real::EventChannel::<u32>::new();
        let mut readers = Vec::new();
        let mut written = 0;
        for _ in 0..30 {
            match rng.below(4) {
                0 if written < shrev_model::CAP as u32 => {
                    let v = rng.below(1000) as u32;
                    mc.single_write(v);
                    rc.single_write(v);
                    written += 1;
                }
                1 if readers.len() < 3 => readers.push((mc.register_reader(), rc.register_reader())),
                2 if !readers.is_empty() => {
                    let k = rng.below(readers.len() as u64) as usize;
                    let (mr, rr) = &mut readers[k];
                    let a: Vec<u32> = mc.read(mr).cloned().collect();
                    let b: Vec<u32> = rc.read(rr).cloned().collect();
                    assert_eq!(a, b, "shrev read");
                }
                _ => {}
            }
        }
        for (mr, rr) in readers.iter_mut() {
            let a: Vec<u32> = mc.read(mr).cloned().collect();
            let b: Vec<u32> = rc.read(rr).cloned().collect();
            assert_eq!(a, b, "shrev final read");
        }
    }
}

fn check_ahash(rng: &mut Rng, rounds: usize) {
    for _ in 0..rounds {
        let mut mm = ahash_model::AHashMap::<u32, u32>::new();
        let mut rm = ahash_real::AHashMap::<u32, u32>::new();
        for _ in 0..40 {
            let k = rng.below(8) as u32;
            let v = rng.below(100) as u32;
            match rng.below(5) {
                0 | 1 => assert_eq!(mm.insert(k, v), rm.insert(k, v)),
                2 => assert_eq!(mm.remove(&k), rm.remove(&k)),
                3 => {
                    if let (Some(a), Some(b)) = (mm.get_mut(&k), rm.get_mut(&k)) {
                        *a = v;
                        *b = v;
                    }
                }
                _ => {
                    if rng.below(10) == 0 {
                        mm.clear();
                        rm.clear();
                    }
                }
            }
            assert_eq!(mm.get(&k), rm.get(&k));
            assert_eq!(mm.contains_key(&k), rm.contains_key(&k));
            assert_eq!(mm.len(), rm.len());
            if mm.contains_key(&k) {
                assert_eq!(mm[&k], rm[&k]);
            }
        }
    }
}

fn check_ahashset(rng: &mut Rng, rounds: usize) {
    // set contract only (membership, sizes, the SET of iterated elements): iteration ORDER is
    // unspecified for a hash set and deliberately nondeterministic in the model
    for _ in 0..rounds {
        let mut m = ahash_model::AHashSet::<u32>::new();
        let mut r = ahash_real::AHashSet::<u32>::new();
        for _ in 0..40 {
            let k = rng.below(12) as u32;
            match rng.below(3) {
                0 | 1 => assert_eq!(m.insert(k), r.insert(k), "AHashSet::insert"),
                _ => assert_eq!(m.remove(&k), r.remove(&k), "AHashSet::remove"),
            }
            assert_eq!(m.contains(&k), r.contains(&k));
            assert_eq!(m.len(), r.len());
        }
        let mut a: Vec<u32> = m.iter().cloned().collect();
        let mut b: Vec<u32> = r.iter().cloned().collect();
        a.sort();
        b.sort();
        assert_eq!(a, b, "AHashSet iteration (as a set)");
        let mut a: Vec<u32> = m.into_iter().collect();
        a.sort();
        assert_eq!(a, b, "AHashSet into_iter (as a set)");
    }
}

fn check_segqueue(rng: &mut Rng, rounds: usize) {
    for _ in 0..rounds {
        let (m, r) = (segq_model::SegQueue::<u64>::new(), segq_real::SegQueue::<u64>::new());
        for _ in 0..60 {
            match rng.below(3) {
                0 | 1 => {
                    let v = rng.next();
                    m.push(v);
                    r.push(v);
                }
                _ => assert_eq!(m.pop(), r.pop(), "SegQueue::pop"),
            }
            assert_eq!(m.is_empty(), r.is_empty(), "SegQueue::is_empty");
            assert_eq!(m.len(), r.len(), "SegQueue::len");
        }
        while let Some(v) = r.pop() {
            assert_eq!(m.pop(), Some(v), "SegQueue drain");
        }
        assert_eq!(m.pop(), None);
    }
}

fn main() {
    let args: Vec<String> = std::env::args().collect();
    let seed: u64 = args.get(1).and_then(|s| s.parse().ok()).unwrap_or(1);
    let rounds: usize = args.get(2).and_then(|s| s.parse().ok()).unwrap_or(2000);
    let mut rng = Rng(seed.wrapping_mul(0x9E37_79B9_7F4A_7C15) | 1);
    check_bitsets(&mut rng, rounds);
    check_shrev(&mut rng, rounds);
    check_ahash(&mut rng, rounds);
    check_segqueue(&mut rng, rounds);
    check_ahashset(&mut rng, rounds);
    println!("modelcheck: hibitset-bounded, shrev-vec, ahash-assoc, crossbeam-queue-seq agree with the real crates on {} rounds (seed {})", rounds, seed);
}
