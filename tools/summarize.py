#!/usr/bin/env python3
"""Prints one line per Kani result file in a result_output_dir (development aid)."""
import sys, os, glob
sys.path.insert(0, os.path.dirname(os.path.dirname(os.path.abspath(__file__))))
from run_check import parse_result_file
d = sys.argv[1]
for f in sorted(glob.glob(os.path.join(d, "*"))):
    r = parse_result_file(f)
    fc = "; ".join(sorted(set(x["desc"][:90] for x in r["failed_checks"])))[:300]
    print("%-45s %-8s t=%-7s checks=%-6s covers=%s/%s %s" % (os.path.basename(f).split("::")[-1], r["status"], r["time_s"], r["checks"], r["covers_sat"], r["covers_total"], fc))
