#!/usr/bin/env python3
"""Runs a property's check against a seeded change WITHOUT touching /repo: copies /verif
(without build output) and the change's worktree into a scratch directory and points the
harness crates at the worktree. For development only; the registered way
(git -C /repo apply <patch>; run the check; git -C /repo checkout -- .) gives the same result.

usage: try_seeded.py <seeded-id> <property> [tier]
"""
import os, subprocess, sys, shutil, re
sid, prop = sys.argv[1], sys.argv[2]
tier = sys.argv[3] if len(sys.argv) > 3 else "quick"
ROOT = os.path.dirname(os.path.dirname(os.path.abspath(__file__)))
scratch = "/tmp/vm_%s" % sid
wt = scratch + "/repo"
shutil.rmtree(scratch, ignore_errors=True)
os.makedirs(scratch)
subprocess.check_call(["git", "-C", "/repo", "worktree", "prune"])
subprocess.check_call(["git", "-C", "/repo", "worktree", "add", "-q", "--detach", wt, "HEAD"])
subprocess.check_call(["git", "-C", wt, "apply", os.path.join(ROOT, "seeded", sid, "patch.diff")])
vm = scratch + "/verif"
subprocess.check_call(["rsync", "-a", "--exclude", "target", "--exclude", ".git", "--exclude", "evidence", "--exclude", "replay", ROOT + "/", vm + "/"])
for dp, dn, fn in os.walk(vm):
    for f in fn:
        if f == "Cargo.toml":
            p = os.path.join(dp, f)
            s = open(p).read()
            s2 = s.replace('path = "/repo"', 'path = "%s"' % wt).replace('path = "/repo/', 'path = "%s/' % wt)
            if s2 != s:
                open(p, "w").write(s2)
        if f == "Cargo.lock":
            os.remove(os.path.join(dp, f))
env = dict(os.environ, VERIF_REPO=wt, VERIF_ISOLATE="1")
r = subprocess.run(["python3", "run_check.py", prop, tier], cwd=vm, env=env, stdout=subprocess.PIPE, stderr=subprocess.STDOUT, text=True)
out = r.stdout
res = os.path.join(ROOT, "seeded", sid, "result_%s_%s.txt" % (prop, tier))
with open(res, "w") as f:
    f.write("exit=%d\n" % r.returncode)
    f.write("\n".join((l[:300] if l.startswith("PROBLEM") else l) for l in out.splitlines()) + "\n")
    f.write("problems=%d\n" % sum(1 for l in out.splitlines() if l.startswith("PROBLEM")))
print("exit", r.returncode, "->", res)
subprocess.call(["git", "-C", "/repo", "worktree", "remove", "--force", wt])
shutil.rmtree(scratch, ignore_errors=True)
