#!/bin/bash
# usage: confirm_seed.sh <id>   (worktree /tmp/wt_<id> with patch applied, patch.diff, tests/seeded_demo.rs, NOTES.md)
# Confirms: builds (both feature sets), existing suite passes with the patch, demo fails with / passes without.
id=$1; wt=/tmp/wt_$id; export CARGO_TARGET_DIR=$wt/target; cd $wt || exit 2
out=$wt/confirm.txt; : > $out
git diff --quiet -- src specs-derive && { echo "patch not applied" | tee -a $out; exit 2; }
cargo build --offline -j 6 --features specs_verif >/dev/null 2>&1; echo "build specs_verif: $?" | tee -a $out
mv tests/seeded_demo.rs /tmp/seeded_demo_$id.rs
cargo nextest run --workspace --no-fail-fast --offline --test-threads 8 > $wt/suite.log 2>&1; echo "suite with patch: exit $? $(grep -E 'Summary|tests run' $wt/suite.log | tail -1)" | tee -a $out
mv /tmp/seeded_demo_$id.rs tests/seeded_demo.rs
cargo test --offline -j 6 --test seeded_demo > $wt/demo_with.log 2>&1; echo "demo with patch: exit $? $(grep 'test result' $wt/demo_with.log | tail -1)" | tee -a $out
git diff -- src specs-derive > /tmp/patch_$id.diff
git apply -R /tmp/patch_$id.diff
cargo test --offline -j 6 --test seeded_demo > $wt/demo_without.log 2>&1; echo "demo without patch: exit $? $(grep 'test result' $wt/demo_without.log | tail -1)" | tee -a $out
git apply /tmp/patch_$id.diff
