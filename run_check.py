#!/usr/bin/env python3
"""Driver: build -> cargo kani -> parse -> extract counterexample -> native replay -> evidence.

usage:
  run_check.py <PROPERTY_ID> [quick|thorough]      run the property's check
  run_check.py --replay <values-file>              replay a recorded counterexample natively
  run_check.py --setup                             warm the build caches (offline)

exit 0: the property held on everything explored (known findings are printed)
exit 1: VIOLATION property=<id> replay=<path>    (a counterexample that reproduces natively)
exit 2: the check itself is broken / inconclusive (timeout, out of memory, vacuous harness,
        model mismatch, counterexample that does not reproduce natively)

Every verdict comes from CBMC deciding the harness's formula over the real /repo sources
(recompiled from the current working tree by cargo kani on every run).
"""
import json, os, re, subprocess, sys, time, shutil, glob, hashlib

ROOT = os.path.dirname(os.path.abspath(__file__))
TARGET = os.path.join(ROOT, "target")
EVID = os.path.join(ROOT, "evidence")
REPLAY = os.path.join(ROOT, "replay")
KNOWN = os.path.join(ROOT, "known_findings.txt")
REPO = os.environ.get("VERIF_REPO", "/repo")  # only tools/try_seeded.py overrides this (scratch copy)

ENV = dict(os.environ)
ENV["CARGO_NET_OFFLINE"] = "true"
ENV.pop("RUSTFLAGS", None)

JOBS = int(os.environ.get("VERIF_JOBS", "14"))
# target directories are shared per harness crate (dependencies are compiled once); set
# VERIF_ISOLATE=1 to give every property its own, so that several checks can run at the same time
ISOLATE = os.environ.get("VERIF_ISOLATE", "") == "1"


def tsuf(prop):
    return ("__" + prop) if ISOLATE else ""


def load_checks():
    with open(os.path.join(ROOT, "checks.json")) as f:
        return json.load(f)


def sh(cmd, cwd=None, env=None, timeout=None, log=None):
    t0 = time.time()
    try:
        p = subprocess.run(cmd, cwd=cwd, env=env or ENV, stdout=subprocess.PIPE, stderr=subprocess.STDOUT,
                           timeout=timeout, text=True, errors="replace")
        out, rc = p.stdout, p.returncode
    except subprocess.TimeoutExpired as e:
        out = (e.stdout or "") if isinstance(e.stdout, str) else (e.stdout or b"").decode(errors="replace")
        rc = 124
    if log:
        with open(log, "w") as f:
            f.write(out)
    return rc, out, time.time() - t0


def all_harnesses(crate_dir):
    """harness name -> fully qualified name (module path) as `--harness ... --exact` needs it"""
    names = {}
    srcdir = os.path.join(crate_dir, "src")
    for src in sorted(glob.glob(os.path.join(srcdir, "**", "*.rs"), recursive=True)):
        txt = open(src).read()
        rel = os.path.relpath(src, srcdir)[:-3]
        mod = "" if rel in ("lib", "variants") else rel.replace(os.sep, "::").replace("::mod", "") + "::"
        for n in re.findall(r"harness!\s*\{\s*(?:#\[[^\]]*\]\s*)*fn\s+([A-Za-z0-9_]+)\s*\(\)", txt):
            names[n] = mod + n
    return names


def select(names, patterns):
    sel = []
    for n in names:
        if any(re.fullmatch(p, n) for p in patterns):
            sel.append(n)
    return sel


def parse_result_file(path):
    txt = open(path, errors="replace").read()
    r = {"status": "unknown", "time_s": None, "checks": None, "failed": None, "failed_checks": [],
         "covers_sat": None, "covers_total": None, "unreachable": None}
    m = re.search(r"\*\* (\d+) of (\d+) failed(?: \((\d+) unreachable\))?", txt)
    if m:
        r["failed"], r["checks"] = int(m.group(1)), int(m.group(2))
        r["unreachable"] = int(m.group(3)) if m.group(3) else 0
    m = re.search(r"\*\* (\d+) of (\d+) cover properties satisfied", txt)
    if m:
        r["covers_sat"], r["covers_total"] = int(m.group(1)), int(m.group(2))
    m = re.search(r"Verification Time: ([0-9.]+)s", txt)
    if m:
        r["time_s"] = float(m.group(1))
    for m in re.finditer(r'Failed Checks: (.*)\n\s*File: "([^"]*)", line (\d+)', txt):
        r["failed_checks"].append({"desc": m.group(1).strip().strip('"'), "file": m.group(2), "line": int(m.group(3))})
    for m in re.finditer(r"Failed Checks: (.*)\n(?!\s*File:)", txt):
        r["failed_checks"].append({"desc": m.group(1).strip().strip('"'), "file": "", "line": 0})
    if "VERIFICATION:- SUCCESSFUL" in txt:
        r["status"] = "success"
    elif "timed out" in txt:
        r["status"] = "timeout"
    elif "out of memory" in txt:
        r["status"] = "oom"
    elif "VERIFICATION:- FAILED" in txt:
        r["status"] = "failed" if r["failed_checks"] else "error"
    return r


def run_kani(crate, harnesses, tier, opts, extra_env=None, tdir_suffix="", playback=False, jobs=None):
    # one target directory per (crate, property): checks of different properties can run concurrently
    """Runs cargo kani on the given harnesses of one harness crate; returns {harness: result}."""
    crate_dir = os.path.join(ROOT, "harness", crate)
    tdir = os.path.join(TARGET, crate + tdir_suffix)
    outdir = os.path.join(tdir, "result_output_dir")
    shutil.rmtree(outdir, ignore_errors=True)
    os.makedirs(tdir, exist_ok=True)
    lock_src = os.path.join(REPO, "Cargo.lock")
    if os.path.exists(lock_src) and not os.path.exists(os.path.join(crate_dir, "Cargo.lock")):
        shutil.copy(lock_src, os.path.join(crate_dir, "Cargo.lock"))
    timeout_min = opts.get("harness_timeout_min", {}).get(tier, 10 if tier == "quick" else 60)
    cmd = ["cargo", "kani", "--target-dir", tdir, "-Z", "unstable-options", "--harness-timeout", "%dm" % timeout_min, "--exact"]
    for f in opts.get("features", []):
        cmd += ["--features", f]
    if opts.get("stubbing"):
        cmd += ["-Z", "stubbing"]
    if opts.get("restrict_vtable"):
        # dyn calls are resolved among the implementations of the trait method only (without it
        # CBMC tries every address-taken function with a compatible signature)
        cmd += ["-Z", "restrict-vtable"]
    if playback:
        cmd += ["-Z", "concrete-playback", "--concrete-playback=print"]
    else:
        cmd += ["-j", str(jobs or JOBS), "--output-format", "terse", "--output-into-files"]
    # explicit kani::cover! witnesses at the end of every harness replace Kani's per-assertion
    # reachability checks (which triple CBMC's solver calls)
    cmd += ["--no-assertion-reach-checks"]
    qual = all_harnesses(crate_dir)
    for h in harnesses:
        cmd += ["--harness", qual.get(h, h)]
    env = dict(ENV)
    if extra_env:
        env.update(extra_env)
    # memory cap per process tree is left to the per-harness timeout; CBMC OOM is reported as such
    log = os.path.join(tdir, "kani_%s.log" % ("playback" if playback else tier))
    total_timeout = 60 * (timeout_min * (len(harnesses) // max(1, (jobs or JOBS)) + 2) + 20)
    rc, out, wall = sh(cmd, cwd=crate_dir, env=env, timeout=total_timeout, log=log)
    results = {}
    if playback:
        return rc, out, wall
    if "error: could not compile" in out or "error[E" in out or rc == 124 and not os.path.isdir(outdir):
        return {"__build_error__": out[-4000:]}, out, wall
    for h in harnesses:
        # file names are the harness's pretty name (module-qualified)
        cand = [p for p in glob.glob(os.path.join(outdir, "*")) if os.path.basename(p).split("::")[-1] == h]
        if cand:
            results[h] = parse_result_file(cand[0])
        else:
            results[h] = {"status": "missing", "time_s": None, "checks": None, "failed": None, "failed_checks": [],
                          "covers_sat": None, "covers_total": None}
    return results, out, wall


def functions_encoded(crate, harness, tdir_suffix=""):
    pat = os.path.join(TARGET, crate + tdir_suffix, "kani", "*", "debug", "build", "*", "*", "out", "*%s.pretty_name_map.json" % harness)
    # cargo puts the harness crate itself under debug/deps or build/<pkg>/<hash>/out depending on version
    files = glob.glob(pat) + glob.glob(os.path.join(TARGET, crate + tdir_suffix, "kani", "**", "*%s.pretty_name_map.json" % harness), recursive=True)
    fns = set()
    for f in files[:1]:
        try:
            m = json.load(open(f))
            vals = m.values() if isinstance(m, dict) else [x[1] if isinstance(x, list) else x for x in m]
            for v in vals:
                if isinstance(v, str) and ("specs::" in v or "ConvertSaveload" in v) \
                        and "hibitset" not in v and "{closure" not in v and not v.startswith("std::") \
                        and not v.startswith("core::") and not v.startswith("alloc::") and len(v) < 200:
                    fns.add(v)
        except Exception:
            pass
    return sorted(fns)


def extract_and_replay(crate, harness, opts, prop):
    """Second Kani run with covers off and concrete playback; then native replay (real deps)."""
    rc, out, wall = run_kani(crate, [harness], "quick", opts, extra_env={"RUSTFLAGS": "--cfg no_witness"},
                             tdir_suffix=tsuf(prop) + "_cex", playback=True)
    m = re.search(r"let concrete_vals: Vec<Vec<u8>> = vec!\[(.*?)\n\s*\];", out, re.S)
    if not m:
        return {"extracted": False, "reason": "no concrete playback in Kani output", "wall_s": wall}
    vals = re.findall(r"vec!\[([0-9, ]*)\]", m.group(1))
    chk = re.search(r"/// Check for `(\w+)`: (.*)", out)
    os.makedirs(REPLAY, exist_ok=True)
    path = os.path.join(REPLAY, "%s_%s.vals" % (prop, harness))
    with open(path, "w") as f:
        f.write("# crate=%s\n# harness=%s\n# property=%s\n" % (crate, harness, prop))
        if chk:
            f.write("# check=%s\n" % chk.group(2).strip())
        f.write("# one line per nondeterministic draw (bytes, little endian), in draw order\n")
        for v in vals:
            f.write((v.strip() or "") + "\n")
    res = {"extracted": True, "path": path, "draws": len(vals), "check": chk.group(2).strip() if chk else None}
    res.update(native_replay(path))
    return res


def native_replay(path):
    hdr = dict(re.findall(r"# (\w+)=(.*)", open(path).read()))
    crate, harness = hdr["crate"], hdr["harness"]
    ndir = os.path.join(ROOT, "harness", crate, "native")
    tdir = os.path.join(TARGET, crate + "_native" + tsuf(hdr.get("property", "x")))
    if os.path.exists(os.path.join(REPO, "Cargo.lock")) and not os.path.exists(os.path.join(ndir, "Cargo.lock")):
        shutil.copy(os.path.join(REPO, "Cargo.lock"), os.path.join(ndir, "Cargo.lock"))
    out = {}
    for profile, flag in (("dev", []), ("release", ["--release"])):
        rc, o, _ = sh(["cargo", "build", "--offline", "--target-dir", tdir, "--bin", "replay"] + flag, cwd=ndir)
        if rc != 0:
            out[profile] = {"built": False, "log": o[-2000:]}
            continue
        binp = os.path.join(tdir, "release" if flag else "debug", "replay")
        # only the non-comment lines are values
        vals = os.path.join(tdir, "vals.tmp")
        with open(vals, "w") as f:
            f.write("".join(l for l in open(path) if not l.startswith("#")))
        rc, o, _ = sh([binp, harness, vals], cwd=ndir, timeout=600)
        out[profile] = {"built": True, "exit": rc, "tail": o[-1500:]}
    reproduced = any(v.get("exit") == 1 for v in out.values())
    return {"native": out, "reproduced": reproduced}


def known_findings():
    fs = []
    if os.path.exists(KNOWN):
        for line in open(KNOWN):
            line = line.strip()
            m = re.match(r"finding:\s+property=(\S+)\s+harness=(\S+)\s+check=\"([^\"]*)\"\s*(.*)", line)
            if m:
                fs.append({"property": m.group(1), "harness": m.group(2), "check": m.group(3), "what": m.group(4)})
    return fs


def tags_of(desc):
    """property tags of an assertion message: "C04: ..." or "C03/C13: ..." """
    m = re.match(r'"?((?:C\d\d/)*C\d\d):', desc)
    return m.group(1).split("/") if m else []


def main():
    args = sys.argv[1:]
    if not args:
        print(__doc__)
        sys.exit(2)
    if args[0] == "--replay":
        r = native_replay(args[1])
        print(json.dumps(r, indent=1))
        sys.exit(1 if r["reproduced"] else 0)
    checks = load_checks()
    if args[0] == "--setup":
        # Every check recompiles /repo from the working tree; setup only verifies the tools and
        # warms the build caches (dependencies of every harness crate), which saves each quick
        # check about two minutes on a fresh copy. Warm-up failures are not fatal.
        for tool in (["cargo", "kani", "--version"], ["cbmc", "--version"]):
            rc, out, _ = sh(tool)
            print(" ".join(tool), "->", out.strip().splitlines()[-1] if out.strip() else rc)
            if rc != 0:
                sys.exit(2)
        import threading

        def warm(crate, opts):
            crate_dir = os.path.join(ROOT, "harness", crate)
            gen = opts.get("generate")
            if gen:
                sh(["python3"] + gen, cwd=crate_dir)
            names = sorted(all_harnesses(crate_dir))
            if not names:
                return
            tdir = os.path.join(TARGET, crate)
            lock_src = os.path.join(REPO, "Cargo.lock")
            if os.path.exists(lock_src) and not os.path.exists(os.path.join(crate_dir, "Cargo.lock")):
                shutil.copy(lock_src, os.path.join(crate_dir, "Cargo.lock"))
            qual = all_harnesses(crate_dir)
            cmd = ["cargo", "kani", "--target-dir", tdir, "--only-codegen", "--exact", "--harness", qual[names[0]]]
            if opts.get("stubbing"):
                cmd += ["-Z", "stubbing"]
            if opts.get("restrict_vtable"):
                cmd += ["-Z", "restrict-vtable"]
            rc, out, w = sh(cmd, cwd=crate_dir, timeout=1500)
            print("warm %s: rc=%s %.0fs" % (crate, rc, w))
            ndir = os.path.join(crate_dir, "native")
            if os.path.isdir(ndir):
                if os.path.exists(lock_src) and not os.path.exists(os.path.join(ndir, "Cargo.lock")):
                    shutil.copy(lock_src, os.path.join(ndir, "Cargo.lock"))
                rc, out, w = sh(["cargo", "build", "--offline", "--release", "--target-dir", os.path.join(TARGET, crate + "_native"), "--bin", "replay"], cwd=ndir, timeout=1500)
                print("warm %s native: rc=%s %.0fs" % (crate, rc, w))

        ths = [threading.Thread(target=warm, args=(c, o)) for c, o in checks["crates"].items()]
        rc, out, w = sh(["cargo", "build", "--offline", "--release", "--target-dir", os.path.join(TARGET, "modelcheck")], cwd=os.path.join(ROOT, "modelcheck"))
        print("warm modelcheck: rc=%s %.0fs" % (rc, w))
        for t in ths:
            t.start()
        for t in ths:
            t.join()
        sys.exit(0)
    prop = args[0]
    tier = args[1] if len(args) > 1 else os.environ.get("VERIF_TIER", "quick")
    seed = int(os.environ.get("VERIF_SEED", "0"))
    if prop not in checks["properties"]:
        print("unknown property", prop)
        sys.exit(2)
    spec = checks["properties"][prop]
    t0 = time.time()
    os.makedirs(EVID, exist_ok=True)
    evid_path = os.path.join(EVID, prop + ".json")
    if os.path.exists(evid_path):
        os.remove(evid_path)

    all_results = {}
    problems = []     # things that make the check itself inconclusive (exit 2)
    # gate: the dependency models must agree with the real crates (native differential run)
    mc_dir = os.path.join(ROOT, "modelcheck")
    mc = {"ran": False}
    mc_t = os.path.join(TARGET, "modelcheck" + tsuf(prop))
    rc_, o_, w_ = sh(["cargo", "build", "--offline", "--release", "--target-dir", mc_t], cwd=mc_dir)
    if rc_ == 0:
        rounds = 2000 if tier == "quick" else 20000
        rc_, o_, w_ = sh([os.path.join(mc_t, "release", "modelcheck"), str(seed + 1), str(rounds)], cwd=mc_dir, timeout=900)
        mc = {"ran": True, "exit": rc_, "summary": (o_.strip().splitlines() or [""])[-1], "wall_s": round(w_, 1)}
    if not mc.get("ran") or mc.get("exit") != 0:
        print("PROBLEM: dependency model disagrees with the real crate (or modelcheck failed to build):", (o_ or "")[-600:])
        sys.exit(2)
    violations = []   # (harness, check, replay info)
    known_hits = []
    attributed_elsewhere = []
    fns = set()
    groups_ev = []
    kf = known_findings()
    ngroups = max(1, len(spec["groups"]))
    import threading
    lock = threading.Lock()

    def do_group(grp, jobs):
            crate = grp["crate"]
            crate_dir = os.path.join(ROOT, "harness", crate)
            opts = checks["crates"][crate]
            gen = opts.get("generate")
            if gen:
                rc, out, _ = sh(["python3"] + gen, cwd=crate_dir)
                if rc != 0:
                    problems.append("generator failed for %s: %s" % (crate, out[-500:]))
                    return
            names = sorted(all_harnesses(crate_dir))
            sel = select(names, grp[tier] if tier in grp else grp["quick"])
            if not sel:
                problems.append("no harness selected in crate %s" % crate)
                return
            results, out, wall = run_kani(crate, sel, tier, opts, tdir_suffix=tsuf(prop), jobs=jobs)
            # resource trouble (out of memory / timeout while many CBMC processes share the machine) is
            # retried with few processes before it is allowed to make the check inconclusive
            if "__build_error__" not in results:
                again = [h for h, r in results.items() if r["status"] in ("oom", "timeout", "missing", "error", "unknown")]
                # (no retry when another harness of the group already failed an assertion: the
                # verdict will come from that counterexample, and on changed code the heavy
                # queries can take an hour each)
                if again and not any(r["status"] == "failed" for r in results.values()):
                    opts2 = dict(opts)
                    opts2["harness_timeout_min"] = {tier: 2 * opts.get("harness_timeout_min", {}).get(tier, 10 if tier == "quick" else 60)}
                    r2, out2, wall2 = run_kani(crate, again, tier, opts2, tdir_suffix=tsuf(prop), jobs=3)
                    wall += wall2
                    if "__build_error__" not in r2:
                        for h, r in r2.items():
                            r["retried"] = True
                            results[h] = r
            if "__build_error__" in results and opts.get("build_failure_is_violation"):
                # the catalogue of derived types no longer compiles although /repo itself builds:
                # the derive output is wrong for a supported shape (C18)
                rc2, o2, _ = sh(["cargo", "build", "--offline", "--features", "serde specs-derive"], cwd=REPO)
                if rc2 == 0:
                    os.makedirs(REPLAY, exist_ok=True)
                    path = os.path.join(REPLAY, "%s_build_failure.log" % prop)
                    open(path, "w").write(results["__build_error__"])
                    violations.append({"harness": "(build of the shape catalogue)", "check": "C18: derive output does not compile for a supported shape",
                                       "crate": crate, "native_only": True, "replay": {"reproduced": True, "path": path, "extracted": True}})
                else:
                    problems.append("/repo itself does not build with the derive features: " + o2[-800:])
                return
            if "__build_error__" in results:
                problems.append("build failed for crate %s (harnesses no longer compile against /repo): %s" % (crate, results["__build_error__"][-1500:]))
                return
            for h, r in results.items():
                all_results[h] = dict(r, crate=crate)
                if r["status"] == "success":
                    if r["covers_total"] and r["covers_sat"] != r["covers_total"]:
                        problems.append("%s: only %s of %s reachability witnesses satisfied (vacuous?)" % (h, r["covers_sat"], r["covers_total"]))
                elif r["status"] == "failed":
                    mine, other, untagged = [], [], []
                    for fc in r["failed_checks"]:
                        t = tags_of(fc["desc"])
                        (mine if prop in t else other if t else untagged).append(fc)
                    for fc in untagged:
                        # a failed check that carries no property tag (pointer / bounds / overflow check,
                        # panic inside the code under test, unwinding assertion, model capacity): it is a
                        # violation of this property only if the counterexample reproduces natively against
                        # the real dependencies; otherwise the check is inconclusive (exit 2)
                        if "unwinding assertion" in fc["desc"] or "model capacity" in fc["desc"]:
                            problems.append("%s: %s" % (h, fc["desc"]))
                        else:
                            violations.append({"harness": h, "check": "untagged: " + fc["desc"], "crate": crate, "untagged": True})
                    if other:
                        attributed_elsewhere.append({"harness": h, "checks": [f["desc"] for f in other]})
                    for fc in mine:
                        hit = [k for k in kf if k["property"] == prop and re.fullmatch(k["harness"], h) and k["check"] in fc["desc"]]
                        if hit:
                            known_hits.append({"harness": h, "check": fc["desc"], "finding": hit[0]["what"]})
                        else:
                            violations.append({"harness": h, "check": fc["desc"], "crate": crate})
                else:
                    problems.append("%s: %s" % (h, r["status"]))
            rep = sel[0]
            f = functions_encoded(crate, rep, tsuf(prop))
            for h in sel[1:40:7]:
                f = sorted(set(f) | set(functions_encoded(crate, h, tsuf(prop))))
            fns.update(f)
            groups_ev.append({"crate": crate, "harnesses": len(sel), "wall_s": round(wall, 1), "opts": opts})


    # the harness crates of one property are independent: run them concurrently
    threads = []
    for grp in spec["groups"]:
        share = grp.get("jobs_share", 1.0 / ngroups)
        cap = checks["crates"][grp["crate"]].get("max_jobs", JOBS)
        th = threading.Thread(target=do_group, args=(grp, max(2, min(cap, int(round(JOBS * share))))))
        th.start()
        threads.append(th)
    for th in threads:
        th.join()

    # assumption / reference-model validation on long native random histories (auxiliary)
    native_val = []
    for grp in spec["groups"]:
        for nh in grp.get("native", []):
            crate = grp["crate"]
            ndir = os.path.join(ROOT, "harness", crate, "native")
            tdir = os.path.join(TARGET, crate + "_native" + tsuf(prop))
            if os.path.exists(os.path.join(REPO, "Cargo.lock")) and not os.path.exists(os.path.join(ndir, "Cargo.lock")):
                shutil.copy(os.path.join(REPO, "Cargo.lock"), os.path.join(ndir, "Cargo.lock"))
            rc, o, _ = sh(["cargo", "build", "--offline", "--release", "--target-dir", tdir, "--bin", "replay"], cwd=ndir)
            if rc != 0:
                problems.append("native validation build failed: " + o[-800:])
                continue
            runs = 20000 if tier == "quick" else 300000
            rc, o, w = sh([os.path.join(tdir, "release", "replay"), "--random", nh, str(runs), str(seed + 1)], cwd=ndir, timeout=1800)
            rec = {"harness": nh, "runs": runs, "seed": seed + 1, "exit": rc, "summary": o.strip().splitlines()[-1] if o.strip() else "", "wall_s": round(w, 1)}
            native_val.append(rec)
            if rc == 1:
                m = re.search(r"panicked at [^\n]*\n([^\n]*)", o)
                msg = m.group(1).strip() if m else "?"
                rec["failure"] = msg
                t = tags_of(msg)
                if prop in t:
                    hit = [k for k in kf if k["property"] == prop and re.fullmatch(k["harness"], nh) and k["check"] in msg]
                    if hit:
                        known_hits.append({"harness": nh, "check": msg, "finding": hit[0]["what"]})
                    else:
                        os.makedirs(REPLAY, exist_ok=True)
                        path = os.path.join(REPLAY, "%s_%s.seed" % (prop, nh))
                        with open(path, "w") as f:
                            f.write("# crate=%s\n# harness=%s\n# property=%s\n# check=%s\n# native random history: replay --random %s %d %d\n" % (crate, nh, prop, msg, nh, runs, seed + 1))
                        violations.append({"harness": nh, "check": msg, "crate": crate, "native_only": True,
                                           "replay": {"reproduced": True, "path": path, "extracted": True}})
                elif t:
                    attributed_elsewhere.append({"harness": nh, "checks": [msg]})
                else:
                    problems.append("native validation %s failed: %s (assumed invariant / reference model does not hold on a real history)" % (nh, msg))
            elif rc != 0:
                problems.append("native validation %s: exit %s" % (nh, rc))

    # replay the first few violations natively
    confirmed = []
    seen_sig = set()
    for v in violations:
        if v.get("native_only"):
            confirmed.append(v)
            continue
        sig = (re.sub(r"\d+", "#", v["harness"]), v["check"])
        if sig in seen_sig and len(confirmed) >= 1:
            v["replay"] = {"skipped": "same signature as an earlier replayed counterexample"}
            continue
        seen_sig.add(sig)
        if len([c for c in confirmed]) >= 3:
            v["replay"] = {"skipped": "replay budget"}
            continue
        opts = checks["crates"][v["crate"]]
        v["replay"] = extract_and_replay(v["crate"], v["harness"], opts, prop)
        if v["replay"].get("reproduced"):
            confirmed.append(v)
        else:
            problems.append("%s: counterexample for '%s' did not reproduce natively (model/stub/harness discrepancy)" % (v["harness"], v["check"]))

    n_ok = sum(1 for r in all_results.values() if r["status"] == "success")
    nontrivial = sum(1 for r in all_results.values() if r["status"] == "success" and (not r["covers_total"] or r["covers_sat"] == r["covers_total"]) and (r["checks"] or 0) > 0)
    cbmc_time = sum((r["time_s"] or 0) for r in all_results.values())
    samples = []
    for h in list(all_results)[:6]:
        r = all_results[h]
        samples.append({"harness": h, "status": r["status"], "cbmc_checks": r["checks"], "covers": "%s/%s" % (r["covers_sat"], r["covers_total"]), "cbmc_time_s": r["time_s"]})
    ev = {
        "property_id": prop,
        "tier": tier,
        "seed": seed,
        "level": "model_checking",
        "coverage": {
            "evaluations": len(all_results),
            "distinct_nontrivial": nontrivial,
            "rule": "one evaluation = one Kani/CBMC query (harness) decided for ALL values of its symbolic inputs within the stated bounds; "
                    "distinct = distinct harness (distinct operation / index pattern / instantiation); non-trivial = verified, with >0 CBMC checks and "
                    "every reachability witness (kani::cover) of the harness satisfied",
            "samples": samples,
            "exhaustive": False,
            "harness_results": all_results,
            "queries_discharged": n_ok,
            "cbmc_properties_checked": sum((r["checks"] or 0) for r in all_results.values()),
            "solver_time_s": round(cbmc_time, 1),
            "functions_encoded": sorted(fns),
            "bounds": spec.get("bounds", {}).get(tier, spec.get("bounds", {})),
            "outside_bounds": spec.get("outside", []),
            "models_and_stubs": spec.get("models", []),
            "groups": groups_ev,
            "model_validation": mc,
            "assumption_validation_native": native_val,
            "known_findings_matched": known_hits,
            "failures_attributed_to_other_properties": attributed_elsewhere,
            "violations": violations,
            "problems": problems,
            "engine": "Kani 0.68.0 / CBMC 6.11.0 (CaDiCaL)",
        },
        "assumptions": spec.get("assumptions", []),
        "wall_s": round(time.time() - t0, 1),
        "violations": len(confirmed),
    }
    with open(evid_path, "w") as f:
        json.dump(ev, f, indent=1)
    for k in known_hits:
        print("KNOWN-FINDING: property=%s %s [%s: %s]" % (prop, k["finding"], k["harness"], k["check"]))
    for v in confirmed:
        print("VIOLATION property=%s replay=%s" % (prop, v["replay"]["path"]))
        print("  harness=%s check=%s" % (v["harness"], v["check"]))
    for p in problems:
        print("PROBLEM:", p)
    print("%s %s: %d harnesses, %d verified, %d violations confirmed, %d known, %d problems, %.0fs" % (
        prop, tier, len(all_results), n_ok, len(confirmed), len(known_hits), len(problems), time.time() - t0))
    if confirmed:
        sys.exit(1)
    if problems:
        sys.exit(2)
    sys.exit(0)


if __name__ == "__main__":
    main()
