use util::*;
use {BitSet, BitSetLike};

pub use self::drain::DrainBitIter;

#[cfg(feature = "parallel")]
pub use self::parallel::{BitParIter, BitProducer};

mod drain;
#[cfg(feature = "parallel")]
mod parallel;

/// An `Iterator` over a [`BitSetLike`] structure.
///
/// [`BitSetLike`]: ../trait.BitSetLike.html
#[derive(Debug, Clone)]
pub struct BitIter<T> {
    pub(crate) set: T,
    pub(crate) masks: [usize; LAYERS],
    pub(crate) prefix: [u32; LAYERS - 1],
}

impl<T> BitIter<T> {
    /// Creates a new `BitIter`. You usually don't call this function
    /// but just [`.iter()`] on a bit set.
    ///
    /// [`.iter()`]: ../trait.BitSetLike.html#method.iter
    pub fn new(set: T, masks: [usize; LAYERS], prefix: [u32; LAYERS - 1]) -> Self {
        BitIter {
            set: set,
            masks: masks,
            prefix: prefix,
        }
    }
}

impl<T: BitSetLike> BitIter<T> {
    /// Allows checking if set bit is contained in underlying bit set.
    pub fn contains(&self, i: Index) -> bool {
        self.set.contains(i)
    }
}

impl<'a> BitIter<&'a mut BitSet> {
    /// Clears the rest of the bitset starting from the next inner layer.
    pub(crate) fn clear(&mut self) {
        use self::State::Continue;
        while let Some(level) = (1..LAYERS).find(|&level| self.handle_level(level) == Continue) {
            let lower = level - 1;
            let idx = (self.prefix[lower] >> BITS) as usize;
            *self.set.layer_mut(lower, idx) = 0;
            if level == LAYERS - 1 {
                self.set.layer3 &= !((2 << idx) - 1);
            }
        }
    }
}

#[derive(PartialEq)]
pub(crate) enum State {
    Empty,
    Continue,
    Value(Index),
}

impl<T> Iterator for BitIter<T>
where
    T: BitSetLike,
{
    type Item = Index;

    fn next(&mut self) -> Option<Self::Item> {
        use self::State::*;
        'find: loop {
            for level in 0..LAYERS {
                match self.handle_level(level) {
                    Value(v) => return Some(v),
                    Continue => continue 'find,
                    Empty => {}
                }
            }
            // There is no set bits left
            return None;
        }
    }
}

impl<T: BitSetLike> BitIter<T> {
    pub(crate) fn handle_level(&mut self, level: usize) -> State {
        use self::State::*;
        if self.masks[level] == 0 {
            Empty
        } else {
            // Take the first bit that isn't zero
            let first_bit = self.masks[level].trailing_zeros();
            // Remove it from the mask
            self.masks[level] &= !(1 << first_bit);
            // Calculate the index of it
            let idx = self.prefix.get(level).cloned().unwrap_or(0) | first_bit;
            if level == 0 {
                // It's the lowest layer, so the `idx` is the next set bit
                Value(idx)
            } else {
                // Take the corresponding `usize` from the layer below
                self.masks[level - 1] = self.set.get_from_layer(level - 1, idx as usize);
                self.prefix[level - 1] = idx << BITS;
                Continue
            }
        }
    }
}

#[cfg(test)]
mod tests {
    use {BitSet, BitSetLike};

    #[test]
    fn iterator_clear_empties() {
        use rand::prelude::*;

        let mut set = BitSet::new();
        let mut rng = thread_rng();
        let limit = 1_048_576;
        for _ in 0..(limit / 10) {
            set.add(rng.gen_range(0, limit));
        }
        (&mut set).iter().clear();
        assert_eq!(0, set.layer3);
        for &i in &set.layer2 {
            assert_eq!(0, i);
        }
        for &i in &set.layer1 {
            assert_eq!(0, i);
        }
        for &i in &set.layer0 {
            assert_eq!(0, i);
        }
    }

    #[test]
    fn iterator_clone() {
        let mut set = BitSet::new();
        set.add(1);
        set.add(3);
        let iter = set.iter().skip(1);
        for (a, b) in iter.clone().zip(iter) {
            assert_eq!(a, b);
        }
    }
}
