use rayon::iter::plumbing::{bridge_unindexed, Folder, UnindexedConsumer, UnindexedProducer};
use rayon::iter::ParallelIterator;

use iter::{BitIter, BitSetLike, Index, BITS, LAYERS};
use util::average_ones;

/// A `ParallelIterator` over a [`BitSetLike`] structure.
///
/// [`BitSetLike`]: ../../trait.BitSetLike.html
#[derive(Debug)]
pub struct BitParIter<T>(T, u8);

impl<T> BitParIter<T> {
    /// Creates a new `BitParIter`. You usually don't call this function
    /// but just [`.par_iter()`] on a bit set.
    ///
    /// Default layer split amount is 3.
    ///
    /// [`.par_iter()`]: ../../trait.BitSetLike.html#method.par_iter
    pub fn new(set: T) -> Self {
        BitParIter(set, 3)
    }

    /// Sets how many layers are split when forking.
    ///
    /// # Examples
    ///
    /// ```
    /// # extern crate rayon;
    /// # extern crate hibitset;
    /// # use hibitset::{BitSet, BitSetLike};
    /// # use rayon::iter::ParallelIterator;
    /// # fn main() {
    /// let mut bitset = BitSet::new();
    /// bitset.par_iter()
    ///     .layers_split(2)
    ///     .count();
    /// # }
    /// ```
    ///
    /// The value should be in range [1, 3]
    ///
    /// | splits | largest smallest unit of work |
    /// |--------|-------------------------------|
    /// | 1      | usize_bits<sup>3</sup>        |
    /// | 2      | usize_bits<sup>2</sup>        |
    /// | 3      | usize_bits                    |
    ///
    pub fn layers_split(mut self, layers: u8) -> Self {
        assert!(layers >= 1);
        assert!(layers <= 3);
        self.1 = layers;
        self
    }
}

impl<T> ParallelIterator for BitParIter<T>
where
    T: BitSetLike + Send + Sync,
{
    type Item = Index;

    fn drive_unindexed<C>(self, consumer: C) -> C::Result
    where
        C: UnindexedConsumer<Self::Item>,
    {
        bridge_unindexed(BitProducer((&self.0).iter(), self.1), consumer)
    }
}

/// Allows splitting and internally iterating through `BitSet`.
///
/// Usually used internally by `BitParIter`.
#[derive(Debug)]
pub struct BitProducer<'a, T: 'a + Send + Sync>(pub BitIter<&'a T>, pub u8);

impl<'a, T: 'a + Send + Sync> UnindexedProducer for BitProducer<'a, T>
where
    T: BitSetLike,
{
    type Item = Index;

    /// How the splitting is done:
    ///
    /// 1) First the highest layer that has at least one set bit
    ///    is searched.
    ///
    /// 2) If the layer that was found, has only one bit that's set,
    ///    it's cleared. After that the correct prefix for the cleared
    ///    bit is figured out and the descending is continued.
    ///
    /// 3) If the layer that was found, has more than one bit that's set,
    ///    a mask is created that splits it's set bits as close to half
    ///    as possible.
    ///    After creating the mask the layer is masked by either the mask
    ///    or it's complement constructing two distinct producers which
    ///    are then returned.
    ///
    /// 4) If there isn't any layers that have more than one set bit,
    ///    splitting doesn't happen.
    ///
    /// The actual iteration is performed by the sequential iterator
    /// `BitIter` which internals are modified by this splitting
    ///  algorithm.
    ///
    /// This splitting strategy should split work evenly if the set bits
    /// are distributed close to uniformly random.
    /// As the strategy only looks one layer at the time, if there are subtrees
    /// that have lots of work and sibling subtrees that have little of work,
    /// then it will produce non-optimal splittings.
    fn split(mut self) -> (Self, Option<Self>) {
        let splits = self.1;
        let other = {
            let mut handle_level = |level: usize| {
                if self.0.masks[level] == 0 {
                    // Skip the empty layers
                    None
                } else {
                    // Top levels prefix is zero because there is nothing before it
                    let level_prefix = self.0.prefix.get(level).cloned().unwrap_or(0);
                    let first_bit = self.0.masks[level].trailing_zeros();
                    average_ones(self.0.masks[level])
                        .and_then(|average_bit| {
                            let mask = (1 << average_bit) - 1;
                            let mut other = BitProducer(
                                BitIter::new(self.0.set, [0; LAYERS], [0; LAYERS - 1]),
                                splits,
                            );
                            // The `other` is the more significant half of the mask
                            other.0.masks[level] = self.0.masks[level] & !mask;
                            other.0.prefix[level - 1] = (level_prefix | average_bit as u32) << BITS;
                            // The upper portion of the prefix is maintained, because the `other`
                            // will iterate the same subtree as the `self` does
                            other.0.prefix[level..].copy_from_slice(&self.0.prefix[level..]);
                            // And the `self` is the less significant one
                            self.0.masks[level] &= mask;
                            self.0.prefix[level - 1] = (level_prefix | first_bit) << BITS;
                            Some(other)
                        })
                        .or_else(|| {
                            // Because there is only one bit left we descend to it
                            let idx = level_prefix as usize | first_bit as usize;
                            self.0.prefix[level - 1] = (idx as u32) << BITS;
                            // The level that is descended from doesn't have anything
                            // interesting so it can be skipped in the future.
                            self.0.masks[level] = 0;
                            self.0.masks[level - 1] = self.0.set.get_from_layer(level - 1, idx);
                            None
                        })
                }
            };
            let top_layer = LAYERS - 1;
            let mut h = handle_level(top_layer);
            for i in 1..splits {
                h = h.or_else(|| handle_level(top_layer - i as usize));
            }
            h
        };
        (self, other)
    }

    fn fold_with<F>(self, folder: F) -> F
    where
        F: Folder<Self::Item>,
    {
        folder.consume_iter(self.0)
    }
}

#[cfg(test)]
mod test_bit_producer {
    use rayon::iter::plumbing::UnindexedProducer;

    use super::BitProducer;
    use iter::BitSetLike;
    use util::BITS;

    fn test_splitting(split_levels: u8) {
        fn visit<T>(mut us: BitProducer<T>, d: usize, i: usize, mut trail: String, c: &mut usize)
        where
            T: Send + Sync + BitSetLike,
        {
            if d == 0 {
                assert!(us.split().1.is_none(), "{}", trail);
                *c += 1;
            } else {
                for j in 1..(i + 1) {
                    let (new_us, them) = us.split();
                    us = new_us;
                    let them = them.expect(&trail);
                    let mut trail = trail.clone();
                    trail.push_str(&i.to_string());
                    visit(them, d, i - j, trail, c);
                }
                trail.push_str("u");
                visit(us, d - 1, BITS, trail, c);
            }
        }

        let usize_bits = ::std::mem::size_of::<usize>() * 8;

        let mut c = ::BitSet::new();
        for i in 0..(usize_bits.pow(3) * 2) {
            assert!(!c.add(i as u32));
        }

        let us = BitProducer((&c).iter(), split_levels);
        let (us, them) = us.split();

        let mut count = 0;
        visit(
            us,
            split_levels as usize - 1,
            BITS,
            "u".to_owned(),
            &mut count,
        );
        visit(
            them.expect("Splitting top level"),
            split_levels as usize - 1,
            BITS,
            "t".to_owned(),
            &mut count,
        );
        assert_eq!(usize_bits.pow(split_levels as u32 - 1) * 2, count);
    }

    #[test]
    fn max_3_splitting_of_two_top_bits() {
        test_splitting(3);
    }

    #[test]
    fn max_2_splitting_of_two_top_bits() {
        test_splitting(2);
    }

    #[test]
    fn max_1_splitting_of_two_top_bits() {
        test_splitting(1);
    }
}
