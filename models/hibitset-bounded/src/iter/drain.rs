use iter::BitIter;
use util::*;
use DrainableBitSet;

/// A draining `Iterator` over a [`DrainableBitSet`] structure.
///
/// [`DrainableBitSet`]: ../trait.DrainableBitSet.html
pub struct DrainBitIter<'a, T: 'a> {
    iter: BitIter<&'a mut T>,
}

impl<'a, T: DrainableBitSet> DrainBitIter<'a, T> {
    /// Creates a new `DrainBitIter`. You usually don't call this function
    /// but just [`.drain()`] on a bit set.
    ///
    /// [`.drain()`]: ../trait.DrainableBitSet.html#method.drain
    pub fn new(set: &'a mut T, masks: [usize; LAYERS], prefix: [u32; LAYERS - 1]) -> Self {
        DrainBitIter {
            iter: BitIter::new(set, masks, prefix),
        }
    }
}

impl<'a, T> Iterator for DrainBitIter<'a, T>
where
    T: DrainableBitSet,
{
    type Item = Index;

    fn next(&mut self) -> Option<Self::Item> {
        let next = self.iter.next();
        if let Some(next) = next {
            self.iter.set.remove(next);
        }
        next
    }
}

#[test]
fn drain_all() {
    use {BitSet, BitSetLike};
    let mut bit_set: BitSet = (0..10000).filter(|i| i % 2 == 0).collect();
    bit_set.drain().for_each(|_| {});
    assert_eq!(0, bit_set.iter().count());
}
