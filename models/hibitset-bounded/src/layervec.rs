//! VERIF MODEL: fixed-capacity stand-in for the `Vec<usize>` layers of `BitSet`.
//!
//! Same observable behaviour as the `Vec` operations hibitset uses (`len`,
//! `resize(n, 0)`, `clear`, indexing with bounds check, `get`, `as_slice`,
//! iteration), but the storage is an inline array, so a symbolic execution
//! never sees a reallocation. Growing past the capacity panics (so a harness
//! that leaves the modelled range fails loudly instead of passing).

use std::ops::{Index, IndexMut};

#[derive(Clone, Debug)]
pub struct LayerVec<const N: usize> {
    len: usize,
    data: [usize; N],
}

impl<const N: usize> Default for LayerVec<N> {
    fn default() -> Self {
        LayerVec { len: 0, data: [0; N] }
    }
}

impl<const N: usize> LayerVec<N> {
    #[inline]
    pub fn len(&self) -> usize {
        self.len
    }

    pub fn resize(&mut self, new_len: usize, value: usize) {
        if new_len > N {
            panic!("hibitset-bounded: model capacity exceeded");
        }
        let mut i = self.len;
        while i < new_len {
            self.data[i] = value;
            i += 1;
        }
        self.len = new_len;
    }

    #[inline]
    pub fn clear(&mut self) {
        self.len = 0;
    }

    #[inline]
    pub fn get(&self, i: usize) -> Option<&usize> {
        if i < self.len {
            Some(&self.data[i])
        } else {
            None
        }
    }

    #[inline]
    pub fn as_slice(&self) -> &[usize] {
        &self.data[..self.len]
    }
}

impl<const N: usize> Index<usize> for LayerVec<N> {
    type Output = usize;
    #[inline]
    fn index(&self, i: usize) -> &usize {
        assert!(i < self.len, "index out of bounds");
        &self.data[i]
    }
}

impl<const N: usize> IndexMut<usize> for LayerVec<N> {
    #[inline]
    fn index_mut(&mut self, i: usize) -> &mut usize {
        assert!(i < self.len, "index out of bounds");
        &mut self.data[i]
    }
}

impl<'a, const N: usize> IntoIterator for &'a LayerVec<N> {
    type Item = &'a usize;
    type IntoIter = ::std::slice::Iter<'a, usize>;
    fn into_iter(self) -> Self::IntoIter {
        self.as_slice().iter()
    }
}

/// Number of layer-0 words modelled (ids `0 .. CAP0 * 64`).
#[cfg(not(any(feature = "cap4160", feature = "capl2")))]
pub const CAP0: usize = 2;
#[cfg(all(feature = "cap4160", not(feature = "capl2")))]
pub const CAP0: usize = 65;
#[cfg(feature = "capl2")]
pub const CAP0: usize = 4162;

/// Layer-1 words needed for `CAP0` layer-0 words.
pub const CAP1: usize = (CAP0 + 63) / 64;
/// Layer-2 words needed.
pub const CAP2: usize = (CAP1 + 63) / 64;
/// Number of ids representable.
pub const CAP_IDS: usize = CAP0 * 64;
/// Words kept per atomic block (a real block has 64).
pub const BLOCK_WORDS: usize = if CAP0 < 64 { CAP0 } else { 64 };
