use std::iter::{FromIterator, IntoIterator};
use std::ops::{BitAnd, BitAndAssign, BitOr, BitOrAssign, BitXor, BitXorAssign, Not};
use std::usize;

use util::*;

use {AtomicBitSet, BitIter, BitSet, BitSetLike, DrainableBitSet};

impl<'a, B> BitOrAssign<&'a B> for BitSet
where
    B: BitSetLike,
{
    fn bitor_assign(&mut self, lhs: &B) {
        use iter::State::Continue;
        let mut iter = lhs.iter();
        while let Some(level) = (1..LAYERS).find(|&level| iter.handle_level(level) == Continue) {
            let lower = level - 1;
            let idx = iter.prefix[lower] as usize >> BITS;
            *self.layer_mut(lower, idx) |= lhs.get_from_layer(lower, idx);
        }
        self.layer3 |= lhs.layer3();
    }
}

impl<'a, B> BitAndAssign<&'a B> for BitSet
where
    B: BitSetLike,
{
    fn bitand_assign(&mut self, lhs: &B) {
        use iter::State::*;
        let mut iter = lhs.iter();
        iter.masks[LAYERS - 1] &= self.layer3();
        while let Some(level) = (1..LAYERS).find(|&level| iter.handle_level(level) == Continue) {
            let lower = level - 1;
            let idx = iter.prefix[lower] as usize >> BITS;
            let our_layer = self.get_from_layer(lower, idx);
            let their_layer = lhs.get_from_layer(lower, idx);

            iter.masks[lower] &= our_layer;

            let mut masks = [0; LAYERS];
            masks[lower] = our_layer & !their_layer;
            BitIter::new(&mut *self, masks, iter.prefix).clear();

            *self.layer_mut(lower, idx) &= their_layer;
        }
        let mut masks = [0; LAYERS];
        masks[LAYERS - 1] = self.layer3() & !lhs.layer3();
        BitIter::new(&mut *self, masks, [0; LAYERS - 1]).clear();

        self.layer3 &= lhs.layer3();
    }
}

impl<'a, B> BitXorAssign<&'a B> for BitSet
where
    B: BitSetLike,
{
    fn bitxor_assign(&mut self, lhs: &B) {
        use iter::State::*;
        let mut iter = lhs.iter();
        while let Some(level) = (1..LAYERS).find(|&level| iter.handle_level(level) == Continue) {
            let lower = level - 1;
            let idx = iter.prefix[lower] as usize >> BITS;

            if lower == 0 {
                *self.layer_mut(lower, idx) ^= lhs.get_from_layer(lower, idx);

                let mut change_bit = |level| {
                    let lower = level - 1;
                    let h = iter.prefix.get(level).cloned().unwrap_or(0) as usize;
                    let l = iter.prefix[lower] as usize >> BITS;
                    let mask = 1 << (l & !h);

                    if self.get_from_layer(lower, l) == 0 {
                        *self.layer_mut(level, h >> BITS) &= !mask;
                    } else {
                        *self.layer_mut(level, h >> BITS) |= mask;
                    }
                };

                change_bit(level);
                if iter.masks[level] == 0 {
                    (2..LAYERS).for_each(change_bit);
                }
            }
        }
    }
}

/// `BitSetAnd` takes two [`BitSetLike`] items, and merges the masks
/// returning a new virtual set, which represents an intersection of the
/// two original sets.
///
/// [`BitSetLike`]: ../trait.BitSetLike.html
#[derive(Debug, Clone)]
pub struct BitSetAnd<A: BitSetLike, B: BitSetLike>(pub A, pub B);

impl<A: BitSetLike, B: BitSetLike> BitSetLike for BitSetAnd<A, B> {
    #[inline]
    fn layer3(&self) -> usize {
        self.0.layer3() & self.1.layer3()
    }
    #[inline]
    fn layer2(&self, i: usize) -> usize {
        self.0.layer2(i) & self.1.layer2(i)
    }
    #[inline]
    fn layer1(&self, i: usize) -> usize {
        self.0.layer1(i) & self.1.layer1(i)
    }
    #[inline]
    fn layer0(&self, i: usize) -> usize {
        self.0.layer0(i) & self.1.layer0(i)
    }
    #[inline]
    fn contains(&self, i: Index) -> bool {
        self.0.contains(i) && self.1.contains(i)
    }
}

impl<A: DrainableBitSet, B: DrainableBitSet> DrainableBitSet for BitSetAnd<A, B> {
    #[inline]
    fn remove(&mut self, i: Index) -> bool {
        if self.contains(i) {
            self.0.remove(i);
            self.1.remove(i);
            true
        } else {
            false
        }
    }
}

/// `BitSetOr` takes two [`BitSetLike`] items, and merges the masks
/// returning a new virtual set, which represents an merged of the
/// two original sets.
///
/// [`BitSetLike`]: ../trait.BitSetLike.html
#[derive(Debug, Clone)]
pub struct BitSetOr<A: BitSetLike, B: BitSetLike>(pub A, pub B);

impl<A: BitSetLike, B: BitSetLike> BitSetLike for BitSetOr<A, B> {
    #[inline]
    fn layer3(&self) -> usize {
        self.0.layer3() | self.1.layer3()
    }
    #[inline]
    fn layer2(&self, i: usize) -> usize {
        self.0.layer2(i) | self.1.layer2(i)
    }
    #[inline]
    fn layer1(&self, i: usize) -> usize {
        self.0.layer1(i) | self.1.layer1(i)
    }
    #[inline]
    fn layer0(&self, i: usize) -> usize {
        self.0.layer0(i) | self.1.layer0(i)
    }
    #[inline]
    fn contains(&self, i: Index) -> bool {
        self.0.contains(i) || self.1.contains(i)
    }
}

impl<A: DrainableBitSet, B: DrainableBitSet> DrainableBitSet for BitSetOr<A, B> {
    #[inline]
    fn remove(&mut self, i: Index) -> bool {
        if self.contains(i) {
            self.0.remove(i);
            self.1.remove(i);
            true
        } else {
            false
        }
    }
}

/// `BitSetNot` takes a [`BitSetLike`] item, and produced an inverted virtual set.
/// Note: the implementation is sub-optimal because layers 1-3 are not active.
///
/// [`BitSetLike`]: ../trait.BitSetLike.html
#[derive(Debug, Clone)]
pub struct BitSetNot<A: BitSetLike>(pub A);

impl<A: BitSetLike> BitSetLike for BitSetNot<A> {
    #[inline]
    fn layer3(&self) -> usize {
        !0
    }
    #[inline]
    fn layer2(&self, _: usize) -> usize {
        !0
    }
    #[inline]
    fn layer1(&self, _: usize) -> usize {
        !0
    }
    #[inline]
    fn layer0(&self, i: usize) -> usize {
        !self.0.layer0(i)
    }
    #[inline]
    fn contains(&self, i: Index) -> bool {
        !self.0.contains(i)
    }
}

/// `BitSetXor` takes two [`BitSetLike`] items, and merges the masks
/// returning a new virtual set, which represents an merged of the
/// two original sets.
///
/// [`BitSetLike`]: ../trait.BitSetLike.html
#[derive(Debug, Clone)]
pub struct BitSetXor<A: BitSetLike, B: BitSetLike>(pub A, pub B);

impl<A: BitSetLike, B: BitSetLike> BitSetLike for BitSetXor<A, B> {
    #[inline]
    fn layer3(&self) -> usize {
        let xor = BitSetAnd(
            BitSetOr(&self.0, &self.1),
            BitSetNot(BitSetAnd(&self.0, &self.1)),
        );
        xor.layer3()
    }
    #[inline]
    fn layer2(&self, id: usize) -> usize {
        let xor = BitSetAnd(
            BitSetOr(&self.0, &self.1),
            BitSetNot(BitSetAnd(&self.0, &self.1)),
        );
        xor.layer2(id)
    }
    #[inline]
    fn layer1(&self, id: usize) -> usize {
        let xor = BitSetAnd(
            BitSetOr(&self.0, &self.1),
            BitSetNot(BitSetAnd(&self.0, &self.1)),
        );
        xor.layer1(id)
    }
    #[inline]
    fn layer0(&self, id: usize) -> usize {
        let xor = BitSetAnd(
            BitSetOr(&self.0, &self.1),
            BitSetNot(BitSetAnd(&self.0, &self.1)),
        );
        xor.layer0(id)
    }
    #[inline]
    fn contains(&self, i: Index) -> bool {
        BitSetAnd(
            BitSetOr(&self.0, &self.1),
            BitSetNot(BitSetAnd(&self.0, &self.1)),
        )
        .contains(i)
    }
}

/// `BitSetAll` is a bitset with all bits set. Essentially the same as
/// `BitSetNot(BitSet::new())` but without any allocation.
#[derive(Debug, Clone)]
pub struct BitSetAll;
impl BitSetLike for BitSetAll {
    #[inline]
    fn layer3(&self) -> usize {
        usize::MAX
    }
    #[inline]
    fn layer2(&self, _id: usize) -> usize {
        usize::MAX
    }
    #[inline]
    fn layer1(&self, _id: usize) -> usize {
        usize::MAX
    }
    #[inline]
    fn layer0(&self, _id: usize) -> usize {
        usize::MAX
    }
    #[inline]
    fn contains(&self, _i: Index) -> bool {
        true
    }
}

macro_rules! operator {
    ( impl < ( $( $lifetime:tt )* ) ( $( $arg:ident ),* ) > for $bitset:ty ) => {
        impl<$( $lifetime, )* $( $arg ),*> IntoIterator for $bitset
            where $( $arg: BitSetLike ),*
        {
            type Item = <BitIter<Self> as Iterator>::Item;
            type IntoIter = BitIter<Self>;
            fn into_iter(self) -> Self::IntoIter {
                self.iter()
            }
        }

        impl<$( $lifetime, )* $( $arg ),*> Not for $bitset
            where $( $arg: BitSetLike ),*
        {
            type Output = BitSetNot<Self>;
            fn not(self) -> Self::Output {
                BitSetNot(self)
            }
        }

        impl<$( $lifetime, )* $( $arg, )* T> BitAnd<T> for $bitset
            where T: BitSetLike,
                  $( $arg: BitSetLike ),*
        {
            type Output = BitSetAnd<Self, T>;
            fn bitand(self, rhs: T) -> Self::Output {
                BitSetAnd(self, rhs)
            }
        }

        impl<$( $lifetime, )* $( $arg, )* T> BitOr<T> for $bitset
            where T: BitSetLike,
                  $( $arg: BitSetLike ),*
        {
            type Output = BitSetOr<Self, T>;
            fn bitor(self, rhs: T) -> Self::Output {
                BitSetOr(self, rhs)
            }
        }

        impl<$( $lifetime, )* $( $arg, )* T> BitXor<T> for $bitset
            where T: BitSetLike,
                  $( $arg: BitSetLike ),*
        {
            type Output = BitSetXor<Self, T>;
            fn bitxor(self, rhs: T) -> Self::Output {
                BitSetXor(self, rhs)
            }
        }

    }
}

operator!(impl<()()> for BitSet);
operator!(impl<('a)()> for &'a BitSet);
operator!(impl<()()> for AtomicBitSet);
operator!(impl<('a)()> for &'a AtomicBitSet);
operator!(impl<()(A)> for BitSetNot<A>);
operator!(impl<('a)(A)> for &'a BitSetNot<A>);
operator!(impl<()(A, B)> for BitSetAnd<A, B>);
operator!(impl<('a)(A, B)> for &'a BitSetAnd<A, B>);
operator!(impl<()(A, B)> for BitSetOr<A, B>);
operator!(impl<('a)(A, B)> for &'a BitSetOr<A, B>);
operator!(impl<()(A, B)> for BitSetXor<A, B>);
operator!(impl<('a)(A, B)> for &'a BitSetXor<A, B>);
operator!(impl<()()> for BitSetAll);
operator!(impl<('a)()> for &'a BitSetAll);

macro_rules! iterator {
    ( $bitset:ident ) => {
        impl FromIterator<Index> for $bitset {
            fn from_iter<T>(iter: T) -> Self
            where
                T: IntoIterator<Item = Index>,
            {
                let mut bitset = $bitset::new();
                for item in iter {
                    bitset.add(item);
                }
                bitset
            }
        }

        impl<'a> FromIterator<&'a Index> for $bitset {
            fn from_iter<T>(iter: T) -> Self
            where
                T: IntoIterator<Item = &'a Index>,
            {
                let mut bitset = $bitset::new();
                for item in iter {
                    bitset.add(*item);
                }
                bitset
            }
        }

        impl Extend<Index> for $bitset {
            fn extend<T>(&mut self, iter: T)
            where
                T: IntoIterator<Item = Index>,
            {
                for item in iter {
                    self.add(item);
                }
            }
        }

        impl<'a> Extend<&'a Index> for $bitset {
            fn extend<T>(&mut self, iter: T)
            where
                T: IntoIterator<Item = &'a Index>,
            {
                for item in iter {
                    self.add(*item);
                }
            }
        }
    };
}

iterator!(BitSet);
iterator!(AtomicBitSet);

#[cfg(test)]
mod tests {
    use {BitSet, BitSetLike, BitSetXor, Index};

    #[test]
    fn or_assign() {
        use std::collections::HashSet;
        use std::mem::size_of;

        let usize_bits = size_of::<usize>() as u32 * 8;
        let n = 10_000;
        let f1 = &|n| 7 * usize_bits * n;
        let f2 = &|n| 13 * usize_bits * n;

        let mut c1: BitSet = (0..n).map(f1).collect();
        let c2: BitSet = (0..n).map(f2).collect();

        c1 |= &c2;

        let h1: HashSet<_> = (0..n).map(f1).collect();
        let h2: HashSet<_> = (0..n).map(f2).collect();
        assert_eq!(c1.iter().collect::<HashSet<_>>(), &h1 | &h2);
    }

    #[test]
    fn or_assign_random() {
        use rand::prelude::*;

        use std::collections::HashSet;
        let limit = 1_048_576;
        let mut rng = thread_rng();

        let mut set1 = BitSet::new();
        let mut check_set1 = HashSet::new();
        for _ in 0..(limit / 100) {
            let index = rng.gen_range(0, limit);
            set1.add(index);
            check_set1.insert(index);
        }

        let mut set2 = BitSet::new();
        let mut check_set2 = HashSet::new();
        for _ in 0..(limit / 100) {
            let index = rng.gen_range(0, limit);
            set2.add(index);
            check_set2.insert(index);
        }

        let hs1 = (&set1).iter().collect::<HashSet<_>>();
        let hs2 = (&set2).iter().collect::<HashSet<_>>();
        let mut hs = (&hs1 | &hs2).iter().cloned().collect::<HashSet<_>>();

        set1 |= &set2;

        for _ in 0..(limit / 1000) {
            let index = rng.gen_range(0, limit);
            set1.add(index);
            hs.insert(index);
        }

        assert_eq!(hs, set1.iter().collect());
    }

    #[test]
    fn and_assign() {
        use std::collections::HashSet;
        use std::mem::size_of;

        let usize_bits = size_of::<usize>() as u32 * 8;
        let n = 10_000;
        let f1 = &|n| 7 * usize_bits * n;
        let f2 = &|n| 13 * usize_bits * n;

        let mut c1: BitSet = (0..n).map(f1).collect();
        let c2: BitSet = (0..n).map(f2).collect();

        c1 &= &c2;

        let h1: HashSet<_> = (0..n).map(f1).collect();
        let h2: HashSet<_> = (0..n).map(f2).collect();
        assert_eq!(c1.iter().collect::<HashSet<_>>(), &h1 & &h2);
    }

    #[test]
    fn and_assign_specific() {
        use util::BITS;

        let mut c1 = BitSet::new();
        c1.add(0);
        let common = ((1 << BITS) << BITS) << BITS;
        c1.add(common);
        c1.add((((1 << BITS) << BITS) + 1) << BITS);

        let mut c2: BitSet = BitSet::new();
        c2.add(common);
        c2.add((((1 << BITS) << BITS) + 2) << BITS);

        c1 &= &c2;

        assert_eq!(c1.iter().collect::<Vec<_>>(), [common]);
    }

    #[test]
    fn and_assign_with_modification() {
        use util::BITS;

        let mut c1 = BitSet::new();
        c1.add(0);
        c1.add((1 << BITS) << BITS);

        let mut c2: BitSet = BitSet::new();
        c2.add(0);

        c1 &= &c2;

        let added = ((1 << BITS) + 1) << BITS;
        c1.add(added);

        assert_eq!(c1.iter().collect::<Vec<_>>(), [0, added]);
    }

    #[test]
    fn and_assign_random() {
        use rand::prelude::*;

        use std::collections::HashSet;
        let limit = 1_048_576;
        let mut rng = thread_rng();

        let mut set1 = BitSet::new();
        let mut check_set1 = HashSet::new();
        for _ in 0..(limit / 100) {
            let index = rng.gen_range(0, limit);
            set1.add(index);
            check_set1.insert(index);
        }

        let mut set2 = BitSet::new();
        let mut check_set2 = HashSet::new();
        for _ in 0..(limit / 100) {
            let index = rng.gen_range(0, limit);
            set2.add(index);
            check_set2.insert(index);
        }

        let hs1 = (&set1).iter().collect::<HashSet<_>>();
        let hs2 = (&set2).iter().collect::<HashSet<_>>();
        let mut hs = (&hs1 & &hs2).iter().cloned().collect::<HashSet<_>>();

        set1 &= &set2;

        for _ in 0..(limit / 1000) {
            let index = rng.gen_range(0, limit);
            set1.add(index);
            hs.insert(index);
        }

        assert_eq!(hs, set1.iter().collect());
    }

    #[test]
    fn xor_assign() {
        use std::collections::HashSet;
        use std::mem::size_of;

        let usize_bits = size_of::<usize>() as u32 * 8;
        let n = 10_000;
        let f1 = &|n| 7 * usize_bits * n;
        let f2 = &|n| 13 * usize_bits * n;

        let mut c1: BitSet = (0..n).map(f1).collect();
        let c2: BitSet = (0..n).map(f2).collect();
        c1 ^= &c2;

        let h1: HashSet<_> = (0..n).map(f1).collect();
        let h2: HashSet<_> = (0..n).map(f2).collect();
        assert_eq!(c1.iter().collect::<HashSet<_>>(), &h1 ^ &h2);
    }

    #[test]
    fn xor_assign_specific() {
        use util::BITS;

        let mut c1 = BitSet::new();
        c1.add(0);
        let common = ((1 << BITS) << BITS) << BITS;
        c1.add(common);
        let a = (((1 << BITS) + 1) << BITS) << BITS;
        c1.add(a);

        let mut c2: BitSet = BitSet::new();
        c2.add(common);
        let b = (((1 << BITS) + 2) << BITS) << BITS;
        c2.add(b);

        c1 ^= &c2;

        assert_eq!(c1.iter().collect::<Vec<_>>(), [0, a, b]);
    }

    #[test]
    fn xor_assign_random() {
        use rand::prelude::*;
        use std::collections::HashSet;
        let limit = 1_048_576;
        let mut rng = thread_rng();

        let mut set1 = BitSet::new();
        let mut check_set1 = HashSet::new();
        for _ in 0..(limit / 100) {
            let index = rng.gen_range(0, limit);
            set1.add(index);
            check_set1.insert(index);
        }

        let mut set2 = BitSet::new();
        let mut check_set2 = HashSet::new();
        for _ in 0..(limit / 100) {
            let index = rng.gen_range(0, limit);
            set2.add(index);
            check_set2.insert(index);
        }

        let hs1 = (&set1).iter().collect::<HashSet<_>>();
        let hs2 = (&set2).iter().collect::<HashSet<_>>();
        let mut hs = (&hs1 ^ &hs2).iter().cloned().collect::<HashSet<_>>();

        set1 ^= &set2;

        for _ in 0..(limit / 1000) {
            let index = rng.gen_range(0, limit);
            set1.add(index);
            hs.insert(index);
        }

        assert_eq!(hs, set1.iter().collect());
    }

    #[test]
    fn operators() {
        let mut bitset = BitSet::new();
        bitset.add(1);
        bitset.add(3);
        bitset.add(5);
        bitset.add(15);
        bitset.add(200);
        bitset.add(50001);

        let mut other = BitSet::new();
        other.add(1);
        other.add(3);
        other.add(50000);
        other.add(50001);

        {
            let not = &bitset & !&bitset;
            assert_eq!(not.iter().count(), 0);
        }

        {
            let either = &bitset | &other;
            let collected = either.iter().collect::<Vec<Index>>();
            assert_eq!(collected, vec![1, 3, 5, 15, 200, 50000, 50001]);

            let either_sanity = bitset.clone() | other.clone();
            assert_eq!(collected, either_sanity.iter().collect::<Vec<Index>>());
        }

        {
            let same = &bitset & &other;
            let collected = same.iter().collect::<Vec<Index>>();
            assert_eq!(collected, vec![1, 3, 50001]);

            let same_sanity = bitset.clone() & other.clone();
            assert_eq!(collected, same_sanity.iter().collect::<Vec<Index>>());
        }

        {
            let exclusive = &bitset ^ &other;
            let collected = exclusive.iter().collect::<Vec<Index>>();
            assert_eq!(collected, vec![5, 15, 200, 50000]);

            let exclusive_sanity = bitset.clone() ^ other.clone();
            assert_eq!(collected, exclusive_sanity.iter().collect::<Vec<Index>>());
        }
    }

    #[test]
    fn xor() {
        // 0011
        let mut bitset = BitSet::new();
        bitset.add(2);
        bitset.add(3);
        bitset.add(50000);

        // 0101
        let mut other = BitSet::new();
        other.add(1);
        other.add(3);
        other.add(50000);
        other.add(50001);

        {
            // 0110
            let xor = BitSetXor(&bitset, &other);
            let collected = xor.iter().collect::<Vec<Index>>();
            assert_eq!(collected, vec![1, 2, 50001]);
        }
    }
}
