use std::default::Default;
use std::fmt::{Debug, Error as FormatError, Formatter};
use std::sync::atomic::{AtomicBool, AtomicUsize, Ordering};

use layervec::{BLOCK_WORDS, CAP1, CAP2};
use util::*;
use {BitSetLike, DrainableBitSet};

// VERIF MODEL (hibitset-bounded). Differences from hibitset 0.6.4:
//  * `layer2` / `layer1` are inline arrays of `CAP2` / `CAP1` entries instead of
//    heap vectors of 64 / 4096 entries;
//  * `OnceAtom` keeps its 64 words inline with an `init` flag instead of a
//    lazily boxed array behind an `AtomicPtr`;
//  * a block keeps only `BLOCK_WORDS = min(64, CAP0)` of its 64 words (the
//    others can never be touched within the modelled capacity);
//  * reads beyond the modelled capacity answer `0` / `false` (what the real
//    structure answers for an id that was never added), writes beyond it panic.
// All `add` / `remove` / `contains` / `clear` bodies are otherwise unchanged.

/// This is similar to a [`BitSet`] but allows setting of value
/// without unique ownership of the structure
///
/// An `AtomicBitSet` has the ability to add an item to the set
/// without unique ownership (given that the set is big enough).
/// Removing elements does require unique ownership as an effect
/// of the hierarchy it holds. Worst case multiple writers set the
/// same bit twice (but only is told they set it).
///
/// It is possible to atomically remove from the set, but not at the
/// same time as atomically adding. This is because there is no way
/// to know if layer 1-3 would be left in a consistent state if they are
/// being cleared and set at the same time.
///
/// `AtromicBitSet` resolves this race by disallowing atomic
/// clearing of bits.
///
/// [`BitSet`]: ../struct.BitSet.html
#[derive(Debug)]
pub struct AtomicBitSet {
    layer3: AtomicUsize,
    layer2: [AtomicUsize; CAP2],
    layer1: [AtomicBlock; CAP1],
}

impl AtomicBitSet {
    /// Creates an empty `AtomicBitSet`.
    pub fn new() -> AtomicBitSet {
        Default::default()
    }

    /// Adds `id` to the `AtomicBitSet`. Returns `true` if the value was
    /// already in the set.
    ///
    /// Because we cannot safely extend an AtomicBitSet without unique ownership
    /// this will panic if the Index is out of range.
    #[inline]
    pub fn add_atomic(&self, id: Index) -> bool {
        let (_, p1, p2) = offsets(id);

        // While it is tempting to check of the bit was set and exit here if it
        // was, this can result in a data race. If this thread and another
        // thread both set the same bit it is possible for the second thread
        // to exit before l3 was set. Resulting in the iterator to be in an
        // incorrect state. The window is small, but it exists.
        let set = self.layer1[p1].add(id);
        self.layer2[p2].fetch_or(id.mask(SHIFT2), Ordering::Relaxed);
        self.layer3.fetch_or(id.mask(SHIFT3), Ordering::Relaxed);
        set
    }

    /// Adds `id` to the `BitSet`. Returns `true` if the value was
    /// already in the set.
    #[inline]
    pub fn add(&mut self, id: Index) -> bool {
        use std::sync::atomic::Ordering::Relaxed;

        let (_, p1, p2) = offsets(id);
        if self.layer1[p1].add(id) {
            return true;
        }

        self.layer2[p2].store(self.layer2[p2].load(Relaxed) | id.mask(SHIFT2), Relaxed);
        self.layer3
            .store(self.layer3.load(Relaxed) | id.mask(SHIFT3), Relaxed);
        false
    }

    /// Removes `id` from the set, returns `true` if the value
    /// was removed, and `false` if the value was not set
    /// to begin with.
    #[inline]
    pub fn remove(&mut self, id: Index) -> bool {
        use std::sync::atomic::Ordering::Relaxed;
        let (_, p1, p2) = offsets(id);
        if p1 >= CAP1 {
            return false; // VERIF MODEL: beyond capacity, never added
        }

        // if the bitmask was set we need to clear
        // its bit from layer0 to 3. the layers above only
        // should be cleared if the bit cleared was the last bit
        // in its set
        //
        // These are used over a `fetch_and` because we have a mutable
        // access to the AtomicBitSet so this is sound (and faster)
        if !self.layer1[p1].remove(id) {
            return false;
        }
        if self.layer1[p1].mask.load(Ordering::Relaxed) != 0 {
            return true;
        }

        let v = self.layer2[p2].load(Relaxed) & !id.mask(SHIFT2);
        self.layer2[p2].store(v, Relaxed);
        if v != 0 {
            return true;
        }

        let v = self.layer3.load(Relaxed) & !id.mask(SHIFT3);
        self.layer3.store(v, Relaxed);
        return true;
    }

    /// Returns `true` if `id` is in the set.
    #[inline]
    pub fn contains(&self, id: Index) -> bool {
        let i = id.offset(SHIFT2);
        if i >= CAP1 {
            return false; // VERIF MODEL: beyond capacity, never added
        }
        self.layer1[i].contains(id)
    }

    /// Clear all bits in the set
    pub fn clear(&mut self) {
        // This is the same hierarchical-striding used in the iterators.
        // Using this technique we can avoid clearing segments of the bitset
        // that are already clear. In the best case when the set is already cleared,
        // this will only touch the highest layer.

        let (mut m3, mut m2) = (self.layer3.swap(0, Ordering::Relaxed), 0usize);
        let mut offset = 0;

        loop {
            if m2 != 0 {
                let bit = m2.trailing_zeros() as usize;
                m2 &= !(1 << bit);

                // layer 1 & 0 are cleared unconditionally. it's only 32-64 words
                // and the extra logic to select the correct works is slower
                // then just clearing them all.
                self.layer1[offset + bit].clear();
                continue;
            }

            if m3 != 0 {
                let bit = m3.trailing_zeros() as usize;
                m3 &= !(1 << bit);
                offset = bit << BITS;
                m2 = self.layer2[bit].swap(0, Ordering::Relaxed);
                continue;
            }
            break;
        }
    }
}

impl BitSetLike for AtomicBitSet {
    #[inline]
    fn layer3(&self) -> usize {
        self.layer3.load(Ordering::Relaxed)
    }
    #[inline]
    fn layer2(&self, i: usize) -> usize {
        if i >= CAP2 {
            return 0; // VERIF MODEL
        }
        self.layer2[i].load(Ordering::Relaxed)
    }
    #[inline]
    fn layer1(&self, i: usize) -> usize {
        if i >= CAP1 {
            return 0; // VERIF MODEL
        }
        self.layer1[i].mask.load(Ordering::Relaxed)
    }
    #[inline]
    fn layer0(&self, i: usize) -> usize {
        let (o1, o0) = (i >> BITS, i & ((1 << BITS) - 1));
        if o1 >= CAP1 {
            return 0; // VERIF MODEL
        }
        self.layer1[o1]
            .atom
            .get()
            .map(|layer0| if o0 < BLOCK_WORDS { layer0[o0].load(Ordering::Relaxed) } else { 0 })
            .unwrap_or(0)
    }
    #[inline]
    fn contains(&self, i: Index) -> bool {
        self.contains(i)
    }
}

impl DrainableBitSet for AtomicBitSet {
    #[inline]
    fn remove(&mut self, i: Index) -> bool {
        self.remove(i)
    }
}

impl Default for AtomicBitSet {
    fn default() -> Self {
        const ZERO: AtomicUsize = AtomicUsize::new(0);
        const BLOCK: AtomicBlock = AtomicBlock::new();
        AtomicBitSet {
            layer3: AtomicUsize::new(0),
            layer2: [ZERO; CAP2],
            layer1: [BLOCK; CAP1],
        }
    }
}

// VERIF MODEL: inline words + init flag instead of a lazily boxed array.
struct OnceAtom {
    init: AtomicBool,
    words: [AtomicUsize; BLOCK_WORDS],
}

impl OnceAtom {
    const fn new() -> Self {
        const ZERO: AtomicUsize = AtomicUsize::new(0);
        Self {
            init: AtomicBool::new(false),
            words: [ZERO; BLOCK_WORDS],
        }
    }

    fn get_or_init(&self) -> &[AtomicUsize; BLOCK_WORDS] {
        self.init.store(true, Ordering::Release);
        &self.words
    }

    fn get(&self) -> Option<&[AtomicUsize; BLOCK_WORDS]> {
        if self.init.load(Ordering::Acquire) {
            Some(&self.words)
        } else {
            None
        }
    }

    fn get_mut(&mut self) -> Option<&mut [AtomicUsize; BLOCK_WORDS]> {
        if *self.init.get_mut() {
            Some(&mut self.words)
        } else {
            None
        }
    }
}

struct AtomicBlock {
    mask: AtomicUsize,
    atom: OnceAtom,
}

impl AtomicBlock {
    const fn new() -> AtomicBlock {
        AtomicBlock {
            mask: AtomicUsize::new(0),
            atom: OnceAtom::new(),
        }
    }

    fn add(&self, id: Index) -> bool {
        let (i, m) = (id.row(SHIFT1), id.mask(SHIFT0));
        let old = self.atom.get_or_init()[i].fetch_or(m, Ordering::Relaxed);
        self.mask.fetch_or(id.mask(SHIFT1), Ordering::Relaxed);
        old & m != 0
    }

    fn contains(&self, id: Index) -> bool {
        self.atom
            .get()
            .map(|layer0| id.row(SHIFT1) < BLOCK_WORDS && layer0[id.row(SHIFT1)].load(Ordering::Relaxed) & id.mask(SHIFT0) != 0)
            .unwrap_or(false)
    }

    fn remove(&mut self, id: Index) -> bool {
        if id.row(SHIFT1) >= BLOCK_WORDS {
            return false; // VERIF MODEL: beyond capacity, never added
        }
        if let Some(layer0) = self.atom.get_mut() {
            let (i, m) = (id.row(SHIFT1), !id.mask(SHIFT0));
            let v = layer0[i].get_mut();
            let was_set = *v & id.mask(SHIFT0) == id.mask(SHIFT0);
            *v = *v & m;
            if *v == 0 {
                // no other bits are set
                // so unset bit in the next level up
                *self.mask.get_mut() &= !id.mask(SHIFT1);
            }
            was_set
        } else {
            false
        }
    }

    fn clear(&mut self) {
        *self.mask.get_mut() = 0;
        self.atom.get_mut().map(|layer0| {
            for l in layer0 {
                *l.get_mut() = 0;
            }
        });
    }
}

impl Debug for AtomicBlock {
    fn fmt(&self, f: &mut Formatter) -> Result<(), FormatError> {
        f.debug_struct("AtomicBlock")
            .field("mask", &self.mask)
            .field("atom", &self.atom.get().unwrap().iter())
            .finish()
    }
}

#[cfg(test)]
mod atomic_set_test {
    use {AtomicBitSet, BitSetAnd, BitSetLike};

    #[test]
    fn insert() {
        let mut c = AtomicBitSet::new();
        for i in 0..1_000 {
            assert!(!c.add(i));
            assert!(c.add(i));
        }

        for i in 0..1_000 {
            assert!(c.contains(i));
        }
    }

    #[test]
    fn insert_100k() {
        let mut c = AtomicBitSet::new();
        for i in 0..100_000 {
            assert!(!c.add(i));
            assert!(c.add(i));
        }

        for i in 0..100_000 {
            assert!(c.contains(i));
        }
    }

    #[test]
    fn add_atomic() {
        let c = AtomicBitSet::new();
        for i in 0..1_000 {
            assert!(!c.add_atomic(i));
            assert!(c.add_atomic(i));
        }

        for i in 0..1_000 {
            assert!(c.contains(i));
        }
    }

    #[test]
    fn add_atomic_100k() {
        let c = AtomicBitSet::new();
        for i in 0..100_000 {
            assert!(!c.add_atomic(i));
            assert!(c.add_atomic(i));
        }

        for i in 0..100_000 {
            assert!(c.contains(i));
        }
    }

    #[test]
    fn remove() {
        let mut c = AtomicBitSet::new();
        for i in 0..1_000 {
            assert!(!c.add(i));
        }

        for i in 0..1_000 {
            assert!(c.contains(i));
            assert!(c.remove(i));
            assert!(!c.contains(i));
            assert!(!c.remove(i));
        }
    }

    #[test]
    fn iter() {
        let mut c = AtomicBitSet::new();
        for i in 0..100_000 {
            c.add(i);
        }

        let mut count = 0;
        for (idx, i) in c.iter().enumerate() {
            count += 1;
            assert_eq!(idx, i as usize);
        }
        assert_eq!(count, 100_000);
    }

    #[test]
    fn iter_odd_even() {
        let mut odd = AtomicBitSet::new();
        let mut even = AtomicBitSet::new();
        for i in 0..100_000 {
            if i % 2 == 1 {
                odd.add(i);
            } else {
                even.add(i);
            }
        }

        assert_eq!((&odd).iter().count(), 50_000);
        assert_eq!((&even).iter().count(), 50_000);
        assert_eq!(BitSetAnd(&odd, &even).iter().count(), 0);
    }

    #[test]
    fn clear() {
        let mut set = AtomicBitSet::new();
        for i in 0..1_000 {
            set.add(i);
        }

        assert_eq!((&set).iter().sum::<u32>(), 500_500 - 1_000);

        assert_eq!((&set).iter().count(), 1_000);
        set.clear();
        assert_eq!((&set).iter().count(), 0);

        for i in 0..1_000 {
            set.add(i * 64);
        }

        assert_eq!((&set).iter().count(), 1_000);
        set.clear();
        assert_eq!((&set).iter().count(), 0);

        for i in 0..1_000 {
            set.add(i * 1_000);
        }

        assert_eq!((&set).iter().count(), 1_000);
        set.clear();
        assert_eq!((&set).iter().count(), 0);

        for i in 0..100 {
            set.add(i * 10_000);
        }

        assert_eq!((&set).iter().count(), 100);
        set.clear();
        assert_eq!((&set).iter().count(), 0);

        for i in 0..10 {
            set.add(i * 10_000);
        }

        assert_eq!((&set).iter().count(), 10);
        set.clear();
        assert_eq!((&set).iter().count(), 0);
    }
}
