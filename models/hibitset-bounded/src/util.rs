/// Type used for indexing.
pub type Index = u32;

/// Base two log of the number of bits in a usize.
#[cfg(target_pointer_width = "64")]
pub const BITS: usize = 6;
#[cfg(target_pointer_width = "32")]
pub const BITS: usize = 5;
/// Amount of layers in the hierarchical bitset.
pub const LAYERS: usize = 4;
pub const MAX: usize = BITS * LAYERS;
/// Maximum amount of bits per bitset.
pub const MAX_EID: usize = 2 << MAX - 1;

/// Layer0 shift (bottom layer, true bitset).
pub const SHIFT0: usize = 0;
/// Layer1 shift (third layer).
pub const SHIFT1: usize = SHIFT0 + BITS;
/// Layer2 shift (second layer).
pub const SHIFT2: usize = SHIFT1 + BITS;
/// Top layer shift.
pub const SHIFT3: usize = SHIFT2 + BITS;

pub trait Row: Sized + Copy {
    /// Location of the bit in the row.
    fn row(self, shift: usize) -> usize;

    /// Index of the row that the bit is in.
    fn offset(self, shift: usize) -> usize;

    /// Bitmask of the row the bit is in.
    #[inline(always)]
    fn mask(self, shift: usize) -> usize {
        1usize << self.row(shift)
    }
}

impl Row for Index {
    #[inline(always)]
    fn row(self, shift: usize) -> usize {
        ((self >> shift) as usize) & ((1 << BITS) - 1)
    }

    #[inline(always)]
    fn offset(self, shift: usize) -> usize {
        self as usize / (1 << shift)
    }
}

/// Helper method for getting parent offsets of 3 layers at once.
///
/// Returns them in (Layer0, Layer1, Layer2) order.
#[inline]
pub fn offsets(bit: Index) -> (usize, usize, usize) {
    (bit.offset(SHIFT1), bit.offset(SHIFT2), bit.offset(SHIFT3))
}

/// Finds the highest bit that splits set bits of the `usize`
/// to half (rounding up).
///
/// Returns `None` if the `usize` has only one or zero set bits.
///
/// # Examples
/// ````rust,ignore
/// use hibitset::util::average_ones;
///
/// assert_eq!(Some(4), average_ones(0b10110));
/// assert_eq!(Some(5), average_ones(0b100010));
/// assert_eq!(None, average_ones(0));
/// assert_eq!(None, average_ones(1));
/// ````
// TODO: Can 64/32 bit variants be merged to one implementation?
// Seems that this would need integer generics to do.
#[cfg(feature = "parallel")]
pub fn average_ones(n: usize) -> Option<usize> {
    #[cfg(target_pointer_width = "64")]
    let average = average_ones_u64(n as u64).map(|n| n as usize);

    #[cfg(target_pointer_width = "32")]
    let average = average_ones_u32(n as u32).map(|n| n as usize);

    average
}

#[cfg(all(any(test, target_pointer_width = "32"), feature = "parallel"))]
fn average_ones_u32(n: u32) -> Option<u32> {
    // !0 / ((1 << (1 << n)) | 1)
    const PAR: [u32; 5] = [!0 / 0x3, !0 / 0x5, !0 / 0x11, !0 / 0x101, !0 / 0x10001];

    // Counting set bits in parallel
    let a = n - ((n >> 1) & PAR[0]);
    let b = (a & PAR[1]) + ((a >> 2) & PAR[1]);
    let c = (b + (b >> 4)) & PAR[2];
    let d = (c + (c >> 8)) & PAR[3];
    let mut cur = d >> 16;
    let count = (d + cur) & PAR[4];
    if count <= 1 {
        return None;
    }

    // Amount of set bits that are wanted for both sides
    let mut target = count / 2;

    // Binary search
    let mut result = 32;
    {
        let mut descend = |child, child_stride, child_mask| {
            if cur < target {
                result -= 2 * child_stride;
                target -= cur;
            }
            // Descend to upper half or lower half
            // depending on are we over or under
            cur = (child >> (result - child_stride)) & child_mask;
        };
        //(!PAR[n] & (PAR[n] + 1)) - 1
        descend(c, 8, 16 - 1); // PAR[3]
        descend(b, 4, 8 - 1); // PAR[2]
        descend(a, 2, 4 - 1); // PAR[1]
        descend(n, 1, 2 - 1); // PAR[0]
    }
    if cur < target {
        result -= 1;
    }

    Some(result - 1)
}

#[cfg(all(any(test, target_pointer_width = "64"), feature = "parallel"))]
fn average_ones_u64(n: u64) -> Option<u64> {
    // !0 / ((1 << (1 << n)) | 1)
    const PAR: [u64; 6] = [
        !0 / 0x3,
        !0 / 0x5,
        !0 / 0x11,
        !0 / 0x101,
        !0 / 0x10001,
        !0 / 0x100000001,
    ];

    // Counting set bits in parallel
    let a = n - ((n >> 1) & PAR[0]);
    let b = (a & PAR[1]) + ((a >> 2) & PAR[1]);
    let c = (b + (b >> 4)) & PAR[2];
    let d = (c + (c >> 8)) & PAR[3];
    let e = (d + (d >> 16)) & PAR[4];
    let mut cur = e >> 32;
    let count = (e + cur) & PAR[5];
    if count <= 1 {
        return None;
    }

    // Amount of set bits that are wanted for both sides
    let mut target = count / 2;

    // Binary search
    let mut result = 64;
    {
        let mut descend = |child, child_stride, child_mask| {
            if cur < target {
                result -= 2 * child_stride;
                target -= cur;
            }
            // Descend to upper half or lower half
            // depending on are we over or under
            cur = (child >> (result - child_stride)) & child_mask;
        };
        //(!PAR[n] & (PAR[n] + 1)) - 1
        descend(d, 16, 256 - 1); // PAR[4]
        descend(c, 8, 16 - 1); // PAR[3]
        descend(b, 4, 8 - 1); // PAR[2]
        descend(a, 2, 4 - 1); // PAR[1]
        descend(n, 1, 2 - 1); // PAR[0]
    }
    if cur < target {
        result -= 1;
    }

    Some(result - 1)
}

#[cfg(all(test, feature = "parallel"))]
mod test_average_ones {
    use super::*;
    #[test]
    fn parity_0_average_ones_u32() {
        struct EvenParity(u32);

        impl Iterator for EvenParity {
            type Item = u32;
            fn next(&mut self) -> Option<Self::Item> {
                if self.0 == u32::max_value() {
                    return None;
                }
                self.0 += 1;
                while self.0.count_ones() & 1 != 0 {
                    if self.0 == u32::max_value() {
                        return None;
                    }
                    self.0 += 1;
                }
                Some(self.0)
            }
        }

        let steps = 1000;
        for i in 0..steps {
            let pos = i * (u32::max_value() / steps);
            for i in EvenParity(pos).take(steps as usize) {
                let mask = (1 << average_ones_u32(i).unwrap_or(31)) - 1;
                assert_eq!((i & mask).count_ones(), (i & !mask).count_ones(), "{:x}", i);
            }
        }
    }

    #[test]
    fn parity_1_average_ones_u32() {
        struct OddParity(u32);

        impl Iterator for OddParity {
            type Item = u32;
            fn next(&mut self) -> Option<Self::Item> {
                if self.0 == u32::max_value() {
                    return None;
                }
                self.0 += 1;
                while self.0.count_ones() & 1 == 0 {
                    if self.0 == u32::max_value() {
                        return None;
                    }
                    self.0 += 1;
                }
                Some(self.0)
            }
        }

        let steps = 1000;
        for i in 0..steps {
            let pos = i * (u32::max_value() / steps);
            for i in OddParity(pos).take(steps as usize) {
                let mask = (1 << average_ones_u32(i).unwrap_or(31)) - 1;
                let a = (i & mask).count_ones();
                let b = (i & !mask).count_ones();
                if a < b {
                    assert_eq!(a + 1, b, "{:x}", i);
                } else if b < a {
                    assert_eq!(a, b + 1, "{:x}", i);
                } else {
                    panic!("Odd parity shouldn't split in exactly half");
                }
            }
        }
    }

    #[test]
    fn empty_average_ones_u32() {
        assert_eq!(None, average_ones_u32(0));
    }

    #[test]
    fn singleton_average_ones_u32() {
        for i in 0..32 {
            assert_eq!(None, average_ones_u32(1 << i), "{:x}", i);
        }
    }

    #[test]
    fn parity_0_average_ones_u64() {
        struct EvenParity(u64);

        impl Iterator for EvenParity {
            type Item = u64;
            fn next(&mut self) -> Option<Self::Item> {
                if self.0 == u64::max_value() {
                    return None;
                }
                self.0 += 1;
                while self.0.count_ones() & 1 != 0 {
                    if self.0 == u64::max_value() {
                        return None;
                    }
                    self.0 += 1;
                }
                Some(self.0)
            }
        }

        let steps = 1000;
        for i in 0..steps {
            let pos = i * (u64::max_value() / steps);
            for i in EvenParity(pos).take(steps as usize) {
                let mask = (1 << average_ones_u64(i).unwrap_or(63)) - 1;
                assert_eq!((i & mask).count_ones(), (i & !mask).count_ones(), "{:x}", i);
            }
        }
    }

    #[test]
    fn parity_1_average_ones_u64() {
        struct OddParity(u64);

        impl Iterator for OddParity {
            type Item = u64;
            fn next(&mut self) -> Option<Self::Item> {
                if self.0 == u64::max_value() {
                    return None;
                }
                self.0 += 1;
                while self.0.count_ones() & 1 == 0 {
                    if self.0 == u64::max_value() {
                        return None;
                    }
                    self.0 += 1;
                }
                Some(self.0)
            }
        }

        let steps = 1000;
        for i in 0..steps {
            let pos = i * (u64::max_value() / steps);
            for i in OddParity(pos).take(steps as usize) {
                let mask = (1 << average_ones_u64(i).unwrap_or(63)) - 1;
                let a = (i & mask).count_ones();
                let b = (i & !mask).count_ones();
                if a < b {
                    assert_eq!(a + 1, b, "{:x}", i);
                } else if b < a {
                    assert_eq!(a, b + 1, "{:x}", i);
                } else {
                    panic!("Odd parity shouldn't split in exactly half");
                }
            }
        }
    }

    #[test]
    fn empty_average_ones_u64() {
        assert_eq!(None, average_ones_u64(0));
    }

    #[test]
    fn singleton_average_ones_u64() {
        for i in 0..64 {
            assert_eq!(None, average_ones_u64(1 << i), "{:x}", i);
        }
    }

    #[test]
    fn average_ones_agree_u32_u64() {
        let steps = 1000;
        for i in 0..steps {
            let pos = i * (u32::max_value() / steps);
            for i in pos..steps {
                assert_eq!(
                    average_ones_u32(i),
                    average_ones_u64(i as u64).map(|n| n as u32),
                    "{:x}",
                    i
                );
            }
        }
    }

    #[test]
    fn specific_values() {
        assert_eq!(Some(4), average_ones_u32(0b10110));
        assert_eq!(Some(5), average_ones_u32(0b100010));
        assert_eq!(None, average_ones_u32(0));
        assert_eq!(None, average_ones_u32(1));

        assert_eq!(Some(4), average_ones_u64(0b10110));
        assert_eq!(Some(5), average_ones_u64(0b100010));
        assert_eq!(None, average_ones_u64(0));
        assert_eq!(None, average_ones_u64(1));
    }
}
