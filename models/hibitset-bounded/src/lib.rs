//! # hibitset
//!
//! Provides hierarchical bit sets,
//! which allow very fast iteration
//! on sparse data structures.
//!
//! ## What it does
//!
//! A `BitSet` may be considered analogous to a `HashSet<u32>`. It
//! tracks whether or not certain indices exist within it. Its
//! implementation is very different, however.
//!
//! At its root, a `BitSet` relies on an array of bits, which express
//! whether or not indices exist. This provides the functionality to
//! `add( )` and `remove( )` indices.
//!
//! This array is referred to as Layer 0. Above it, there is another
//! layer: Layer 1. Layer 1 acts as a 'summary' of Layer 0. It contains
//! one bit for each `usize` bits of Layer 0. If any bit in that `usize`
//! of Layer 0 is set, the bit in Layer 1 will be set.
//!
//! There are, in total, four layers. Layers 1 through 3 are each a
//! summary of the layer immediately below them.
//!
//! ```no_compile
//! Example, with an imaginary 4-bit usize:
//!
//! Layer 3: 1------------------------------------------------ ...
//! Layer 2: 1------------------ 1------------------ 0-------- ...
//! Layer 1: 1--- 0--- 0--- 0--- 1--- 0--- 1--- 0--- 0--- 0--- ...
//! Layer 0: 0010 0000 0000 0000 0011 0000 1111 0000 0000 0000 ...
//! ```
//!
//! This method makes operations that operate over the whole `BitSet`,
//! such as unions, intersections, and iteration, very fast (because if
//! any bit in any summary layer is zero, an entire range of bits
//! below it can be skipped.)
//!
//! However, there is a maximum on index size. The top layer (Layer 3)
//! of the BitSet is a single `usize` long. This makes the maximum index
//! `usize**4` (`1,048,576` for a 32-bit `usize`, `16,777,216` for a
//! 64-bit `usize`). Attempting to add indices larger than that will cause
//! the `BitSet` to panic.
//!

#![deny(missing_docs)]
// VERIF MODEL (hibitset-bounded): see src/layervec.rs and the header of src/atomic.rs.
// Everything except the container representation is the hibitset 0.6.4 source.

#[cfg(test)]
extern crate rand;
#[cfg(feature = "parallel")]
extern crate rayon;

mod atomic;
mod iter;
mod layervec;
mod ops;
mod util;

pub use atomic::AtomicBitSet;
/// VERIF MODEL: number of ids the bounded bit sets can hold.
pub const VERIF_MODEL_CAP_IDS: usize = layervec::CAP_IDS;
pub use iter::{BitIter, DrainBitIter};
#[cfg(feature = "parallel")]
pub use iter::{BitParIter, BitProducer};
pub use ops::{BitSetAll, BitSetAnd, BitSetNot, BitSetOr, BitSetXor};

use util::*;

/// A `BitSet` is a simple set designed to track which indices are placed
/// into it.
///
/// Note, a `BitSet` is limited by design to only `usize**4` indices.
/// Adding beyond this limit will cause the `BitSet` to panic.
#[derive(Clone, Debug, Default)]
pub struct BitSet {
    layer3: usize,
    layer2: layervec::LayerVec<{ layervec::CAP2 }>,
    layer1: layervec::LayerVec<{ layervec::CAP1 }>,
    layer0: layervec::LayerVec<{ layervec::CAP0 }>,
}

impl BitSet {
    /// Creates an empty `BitSet`.
    pub fn new() -> BitSet {
        Default::default()
    }

    #[inline]
    fn valid_range(max: Index) {
        if (MAX_EID as u32) < max {
            panic!("Expected index to be less then {}, found {}", MAX_EID, max);
        }
    }

    /// Creates an empty `BitSet`, preallocated for up to `max` indices.
    pub fn with_capacity(max: Index) -> BitSet {
        Self::valid_range(max);
        let mut value = BitSet::new();
        value.extend(max);
        value
    }

    #[inline(never)]
    fn extend(&mut self, id: Index) {
        Self::valid_range(id);
        let (p0, p1, p2) = offsets(id);

        Self::fill_up(&mut self.layer2, p2);
        Self::fill_up(&mut self.layer1, p1);
        Self::fill_up(&mut self.layer0, p0);
    }

    fn fill_up<const N: usize>(vec: &mut layervec::LayerVec<N>, upper_index: usize) {
        if vec.len() <= upper_index {
            vec.resize(upper_index + 1, 0);
        }
    }

    /// This is used to set the levels in the hierarchy
    /// when the lowest layer was set from 0.
    #[inline(never)]
    fn add_slow(&mut self, id: Index) {
        let (_, p1, p2) = offsets(id);
        self.layer1[p1] |= id.mask(SHIFT1);
        self.layer2[p2] |= id.mask(SHIFT2);
        self.layer3 |= id.mask(SHIFT3);
    }

    /// Adds `id` to the `BitSet`. Returns `true` if the value was
    /// already in the set.
    #[inline]
    pub fn add(&mut self, id: Index) -> bool {
        let (p0, mask) = (id.offset(SHIFT1), id.mask(SHIFT0));

        if p0 >= self.layer0.len() {
            self.extend(id);
        }

        if self.layer0[p0] & mask != 0 {
            return true;
        }

        // we need to set the bit on every layer to indicate
        // that the value can be found here.
        let old = self.layer0[p0];
        self.layer0[p0] |= mask;
        if old == 0 {
            self.add_slow(id);
        }
        false
    }

    fn layer_mut(&mut self, level: usize, idx: usize) -> &mut usize {
        match level {
            0 => {
                Self::fill_up(&mut self.layer0, idx);
                &mut self.layer0[idx]
            }
            1 => {
                Self::fill_up(&mut self.layer1, idx);
                &mut self.layer1[idx]
            }
            2 => {
                Self::fill_up(&mut self.layer2, idx);
                &mut self.layer2[idx]
            }
            3 => &mut self.layer3,
            _ => panic!("Invalid layer: {}", level),
        }
    }

    /// Removes `id` from the set, returns `true` if the value
    /// was removed, and `false` if the value was not set
    /// to begin with.
    #[inline]
    pub fn remove(&mut self, id: Index) -> bool {
        let (p0, p1, p2) = offsets(id);

        if p0 >= self.layer0.len() {
            return false;
        }

        if self.layer0[p0] & id.mask(SHIFT0) == 0 {
            return false;
        }

        // if the bitmask was set we need to clear
        // its bit from layer0 to 3. the layers abover only
        // should be cleared if the bit cleared was the last bit
        // in its set
        self.layer0[p0] &= !id.mask(SHIFT0);
        if self.layer0[p0] != 0 {
            return true;
        }

        self.layer1[p1] &= !id.mask(SHIFT1);
        if self.layer1[p1] != 0 {
            return true;
        }

        self.layer2[p2] &= !id.mask(SHIFT2);
        if self.layer2[p2] != 0 {
            return true;
        }

        self.layer3 &= !id.mask(SHIFT3);
        return true;
    }

    /// Returns `true` if `id` is in the set.
    #[inline]
    pub fn contains(&self, id: Index) -> bool {
        let p0 = id.offset(SHIFT1);
        p0 < self.layer0.len() && (self.layer0[p0] & id.mask(SHIFT0)) != 0
    }

    /// Returns `true` if all ids in `other` are contained in this set
    #[inline]
    pub fn contains_set(&self, other: &BitSet) -> bool {
        for id in other.iter() {
            if !self.contains(id) {
                return false;
            }
        }
        true
    }

    /// Completely wipes out the bit set.
    pub fn clear(&mut self) {
        self.layer0.clear();
        self.layer1.clear();
        self.layer2.clear();
        self.layer3 = 0;
    }

    /// How many bits are in a `usize`.
    ///
    /// This value can be trivially determined. It is provided here as a constant for clarity.
    ///
    /// # Example
    ///
    /// ```
    /// use hibitset::BitSet;
    /// assert_eq!(BitSet::BITS_PER_USIZE, std::mem::size_of::<usize>()*8);
    /// ```
    #[cfg(target_pointer_width = "32")]
    pub const BITS_PER_USIZE: usize = 32;

    /// How many bits are in a `usize`.
    ///
    /// This value can be trivially determined. It is provided here as a constant for clarity.
    ///
    /// # Example
    ///
    /// ```
    /// use hibitset::BitSet;
    /// assert_eq!(BitSet::BITS_PER_USIZE, std::mem::size_of::<usize>()*8);
    /// ```
    #[cfg(target_pointer_width = "64")]
    pub const BITS_PER_USIZE: usize = 64;

    /// Returns the bottom layer of the bitset as a slice. Each bit in this slice refers to a single
    /// `Index`.
    ///
    /// The slice's length will be at least the length needed to reflect all the `1`s in the bitset,
    /// but is not otherwise guaranteed. Consider it to be an implementation detail.
    ///
    /// # Example
    ///
    /// ```
    /// use hibitset::BitSet;
    ///
    /// let index: u32 = 12345;
    ///
    /// let mut bitset = BitSet::new();
    /// bitset.add(index);
    ///
    /// // layer 0 is 1:1 with Indexes, so we expect that bit in the slice to be set
    /// let slice = bitset.layer0_as_slice();
    /// let bit_index = index as usize;
    ///
    /// // map that bit index to a usize in the slice and a bit within that usize
    /// let slice_index = bit_index / BitSet::BITS_PER_USIZE;
    /// let bit_at_index = bit_index % BitSet::BITS_PER_USIZE;
    ///
    /// assert_eq!(slice[slice_index], 1 << bit_at_index);
    /// ```
    pub fn layer0_as_slice(&self) -> &[usize] {
        self.layer0.as_slice()
    }

    /// How many `Index`es are described by as single layer 1 bit, intended for use with
    /// `BitSet::layer1_as_slice()`.
    ///
    /// `BitSet`s are defined in terms of `usize`s summarizing `usize`s, so this value can be
    /// trivially determined. It is provided here as a constant for clarity.
    ///
    /// # Example
    ///
    /// ```
    /// use hibitset::BitSet;
    /// assert_eq!(BitSet::LAYER1_GRANULARITY, BitSet::BITS_PER_USIZE);
    /// ```
    pub const LAYER1_GRANULARITY: usize = Self::BITS_PER_USIZE;

    /// Returns the second layer of the bitset as a slice. Each bit in this slice summarizes a
    /// corresponding `usize` from `layer0`. (If `usize` is 64 bits, bit 0 will be set if any
    /// `Index`es 0-63 are set, bit 1 will be set if any `Index`es 64-127 are set, etc.)
    /// `BitSet::LAYER1_GRANULARITY` reflects how many indexes are summarized per layer 1 bit.
    ///
    /// The slice's length is not guaranteed, except that it will be at least the length needed to
    /// reflect all the `1`s in the bitset.
    ///
    /// # Example
    ///
    /// ```
    /// use hibitset::BitSet;
    ///
    /// let index: u32 = 12345;
    ///
    /// let mut bitset = BitSet::new();
    /// bitset.add(index);
    ///
    /// // layer 1 summarizes multiple indexes per bit, so divide appropriately
    /// let slice = bitset.layer1_as_slice();
    /// let bit_index = index as usize / BitSet::LAYER1_GRANULARITY;
    ///
    /// // map that bit index to a usize in the slice and a bit within that usize
    /// let slice_index = bit_index / BitSet::BITS_PER_USIZE;
    /// let bit_at_index = bit_index % BitSet::BITS_PER_USIZE;
    ///
    /// assert_eq!(slice[slice_index], 1 << bit_at_index);
    /// ```
    pub fn layer1_as_slice(&self) -> &[usize] {
        self.layer1.as_slice()
    }

    /// How many `Index`es are described by as single layer 2 bit, intended for use with
    /// `BitSet::layer2_as_slice()`.
    ///
    /// `BitSet`s are defined in terms of `usize`s summarizing `usize`s, so this value can be
    /// trivially determined. It is provided here as a constant for clarity.
    ///
    /// # Example
    ///
    /// ```
    /// use hibitset::BitSet;
    /// assert_eq!(BitSet::LAYER2_GRANULARITY, BitSet::LAYER1_GRANULARITY * BitSet::BITS_PER_USIZE);
    /// ```
    pub const LAYER2_GRANULARITY: usize = Self::LAYER1_GRANULARITY * Self::BITS_PER_USIZE;

    /// Returns the third layer of the bitset as a slice. Each bit in this slice summarizes a
    /// corresponding `usize` from `layer1`. If `usize` is 64 bits, bit 0 will be set if any
    /// `Index`es 0-4095 are set, bit 1 will be set if any `Index`es 4096-8191 are set, etc.
    ///
    /// The slice's length is not guaranteed, except that it will be at least the length needed to
    /// reflect all the `1`s in the bitset.
    ///
    /// # Example
    ///
    /// ```
    /// use hibitset::BitSet;
    ///
    /// let index: u32 = 12345;
    ///
    /// let mut bitset = BitSet::new();
    /// bitset.add(index);
    ///
    /// // layer 2 summarizes multiple indexes per bit, so divide appropriately
    /// let slice = bitset.layer2_as_slice();
    /// let bit_index = index as usize / BitSet::LAYER2_GRANULARITY;
    ///
    /// // map that bit index to a usize in the slice and a bit within that usize
    /// let slice_index = bit_index / BitSet::BITS_PER_USIZE;
    /// let bit_at_index = bit_index % BitSet::BITS_PER_USIZE;
    ///
    /// assert_eq!(slice[slice_index], 1 << bit_at_index);
    /// ```
    pub fn layer2_as_slice(&self) -> &[usize] {
        self.layer2.as_slice()
    }
}

/// A generic interface for [`BitSetLike`]-like types.
///
/// Every `BitSetLike` is hierarchical, meaning that there
/// are multiple levels that branch out in a tree like structure.
///
/// Layer0 each bit represents one Index of the set
/// Layer1 each bit represents one `usize` of Layer0, and will be
/// set only if the word below it is not zero.
/// Layer2 has the same arrangement but with Layer1, and Layer3 with Layer2.
///
/// This arrangement allows for rapid jumps across the key-space.
///
/// [`BitSetLike`]: ../trait.BitSetLike.html
pub trait BitSetLike {
    /// Gets the `usize` corresponding to layer and index.
    ///
    /// The `layer` should be in the range [0, 3]
    fn get_from_layer(&self, layer: usize, idx: usize) -> usize {
        match layer {
            0 => self.layer0(idx),
            1 => self.layer1(idx),
            2 => self.layer2(idx),
            3 => self.layer3(),
            _ => panic!("Invalid layer: {}", layer),
        }
    }

    /// Returns true if this `BitSetLike` contains nothing, and false otherwise.
    fn is_empty(&self) -> bool {
        self.layer3() == 0
    }

    /// Return a `usize` where each bit represents if any word in layer2
    /// has been set.
    fn layer3(&self) -> usize;

    /// Return the `usize` from the array of usizes that indicates if any
    /// bit has been set in layer1
    fn layer2(&self, i: usize) -> usize;

    /// Return the `usize` from the array of usizes that indicates if any
    /// bit has been set in layer0
    fn layer1(&self, i: usize) -> usize;

    /// Return a `usize` that maps to the direct 1:1 association with
    /// each index of the set
    fn layer0(&self, i: usize) -> usize;

    /// Allows checking if set bit is contained in the bit set.
    fn contains(&self, i: Index) -> bool;

    /// Create an iterator that will scan over the keyspace
    fn iter(self) -> BitIter<Self>
    where
        Self: Sized,
    {
        let layer3 = self.layer3();

        BitIter::new(self, [0, 0, 0, layer3], [0; LAYERS - 1])
    }

    /// Create a parallel iterator that will scan over the keyspace
    #[cfg(feature = "parallel")]
    fn par_iter(self) -> BitParIter<Self>
    where
        Self: Sized,
    {
        BitParIter::new(self)
    }
}

/// A extension to the [`BitSetLike`] trait which allows draining it.
pub trait DrainableBitSet: BitSetLike {
    /// Removes bit from the bit set.
    ///
    /// Returns `true` if removal happened and `false` otherwise.
    fn remove(&mut self, i: Index) -> bool;

    /// Create a draining iterator that will scan over the keyspace and clears it while doing so.
    fn drain<'a>(&'a mut self) -> DrainBitIter<'a, Self>
    where
        Self: Sized,
    {
        let layer3 = self.layer3();

        DrainBitIter::new(self, [0, 0, 0, layer3], [0; LAYERS - 1])
    }
}

impl<'a, T> BitSetLike for &'a T
where
    T: BitSetLike + ?Sized,
{
    #[inline]
    fn layer3(&self) -> usize {
        (*self).layer3()
    }

    #[inline]
    fn layer2(&self, i: usize) -> usize {
        (*self).layer2(i)
    }

    #[inline]
    fn layer1(&self, i: usize) -> usize {
        (*self).layer1(i)
    }

    #[inline]
    fn layer0(&self, i: usize) -> usize {
        (*self).layer0(i)
    }

    #[inline]
    fn contains(&self, i: Index) -> bool {
        (*self).contains(i)
    }
}

impl<'a, T> BitSetLike for &'a mut T
where
    T: BitSetLike + ?Sized,
{
    #[inline]
    fn layer3(&self) -> usize {
        (**self).layer3()
    }

    #[inline]
    fn layer2(&self, i: usize) -> usize {
        (**self).layer2(i)
    }

    #[inline]
    fn layer1(&self, i: usize) -> usize {
        (**self).layer1(i)
    }

    #[inline]
    fn layer0(&self, i: usize) -> usize {
        (**self).layer0(i)
    }

    #[inline]
    fn contains(&self, i: Index) -> bool {
        (**self).contains(i)
    }
}

impl<'a, T> DrainableBitSet for &'a mut T
where
    T: DrainableBitSet,
{
    #[inline]
    fn remove(&mut self, i: Index) -> bool {
        (**self).remove(i)
    }
}

impl BitSetLike for BitSet {
    #[inline]
    fn layer3(&self) -> usize {
        self.layer3
    }

    #[inline]
    fn layer2(&self, i: usize) -> usize {
        self.layer2.get(i).map(|&x| x).unwrap_or(0)
    }

    #[inline]
    fn layer1(&self, i: usize) -> usize {
        self.layer1.get(i).map(|&x| x).unwrap_or(0)
    }

    #[inline]
    fn layer0(&self, i: usize) -> usize {
        self.layer0.get(i).map(|&x| x).unwrap_or(0)
    }

    #[inline]
    fn contains(&self, i: Index) -> bool {
        self.contains(i)
    }
}

impl DrainableBitSet for BitSet {
    #[inline]
    fn remove(&mut self, i: Index) -> bool {
        self.remove(i)
    }
}

impl PartialEq for BitSet {
    #[inline]
    fn eq(&self, rhv: &BitSet) -> bool {
        if self.layer3 != rhv.layer3 {
            return false;
        }
        if self.layer2.len() != rhv.layer2.len()
            || self.layer1.len() != rhv.layer1.len()
            || self.layer0.len() != rhv.layer0.len()
        {
            return false;
        }

        for i in 0..self.layer2.len() {
            if self.layer2(i) != rhv.layer2(i) {
                return false;
            }
        }
        for i in 0..self.layer1.len() {
            if self.layer1(i) != rhv.layer1(i) {
                return false;
            }
        }
        for i in 0..self.layer0.len() {
            if self.layer0(i) != rhv.layer0(i) {
                return false;
            }
        }

        true
    }
}
impl Eq for BitSet {}

#[cfg(test)]
mod tests {
    use super::{BitSet, BitSetAnd, BitSetLike, BitSetNot};

    #[test]
    fn insert() {
        let mut c = BitSet::new();
        for i in 0..1_000 {
            assert!(!c.add(i));
            assert!(c.add(i));
        }

        for i in 0..1_000 {
            assert!(c.contains(i));
        }
    }

    #[test]
    fn insert_100k() {
        let mut c = BitSet::new();
        for i in 0..100_000 {
            assert!(!c.add(i));
            assert!(c.add(i));
        }

        for i in 0..100_000 {
            assert!(c.contains(i));
        }
    }
    #[test]
    fn remove() {
        let mut c = BitSet::new();
        for i in 0..1_000 {
            assert!(!c.add(i));
        }

        for i in 0..1_000 {
            assert!(c.contains(i));
            assert!(c.remove(i));
            assert!(!c.contains(i));
            assert!(!c.remove(i));
        }
    }

    #[test]
    fn iter() {
        let mut c = BitSet::new();
        for i in 0..100_000 {
            c.add(i);
        }

        let mut count = 0;
        for (idx, i) in c.iter().enumerate() {
            count += 1;
            assert_eq!(idx, i as usize);
        }
        assert_eq!(count, 100_000);
    }

    #[test]
    fn iter_odd_even() {
        let mut odd = BitSet::new();
        let mut even = BitSet::new();
        for i in 0..100_000 {
            if i % 2 == 1 {
                odd.add(i);
            } else {
                even.add(i);
            }
        }

        assert_eq!((&odd).iter().count(), 50_000);
        assert_eq!((&even).iter().count(), 50_000);
        assert_eq!(BitSetAnd(&odd, &even).iter().count(), 0);
    }

    #[test]
    fn iter_random_add() {
        use rand::prelude::*;

        let mut set = BitSet::new();
        let mut rng = thread_rng();
        let limit = 1_048_576;
        let mut added = 0;
        for _ in 0..(limit / 10) {
            let index = rng.gen_range(0, limit);
            if !set.add(index) {
                added += 1;
            }
        }
        assert_eq!(set.iter().count(), added as usize);
    }

    #[test]
    fn iter_clusters() {
        let mut set = BitSet::new();
        for x in 0..8 {
            let x = (x * 3) << (::BITS * 2); // scale to the last slot
            for y in 0..8 {
                let y = (y * 3) << (::BITS);
                for z in 0..8 {
                    let z = z * 2;
                    set.add(x + y + z);
                }
            }
        }
        assert_eq!(set.iter().count(), 8usize.pow(3));
    }

    #[test]
    fn not() {
        let mut c = BitSet::new();
        for i in 0..10_000 {
            if i % 2 == 1 {
                c.add(i);
            }
        }
        let d = BitSetNot(c);
        for (idx, i) in d.iter().take(5_000).enumerate() {
            assert_eq!(idx * 2, i as usize);
        }
    }
}

#[cfg(all(test, feature = "parallel"))]
mod test_parallel {
    use super::{BitSet, BitSetAnd, BitSetLike};
    use rayon::iter::ParallelIterator;

    #[test]
    fn par_iter_one() {
        let step = 5000;
        let tests = 1_048_576 / step;
        for n in 0..tests {
            let n = n * step;
            let mut set = BitSet::new();
            set.add(n);
            assert_eq!(set.par_iter().count(), 1);
        }
        let mut set = BitSet::new();
        set.add(1_048_576 - 1);
        assert_eq!(set.par_iter().count(), 1);
    }

    #[test]
    fn par_iter_random_add() {
        use rand::prelude::*;
        use std::collections::HashSet;
        use std::sync::{Arc, Mutex};

        let mut set = BitSet::new();
        let mut check_set = HashSet::new();
        let mut rng = thread_rng();
        let limit = 1_048_576;
        for _ in 0..(limit / 10) {
            let index = rng.gen_range(0, limit);
            set.add(index);
            check_set.insert(index);
        }
        let check_set = Arc::new(Mutex::new(check_set));
        let missing_set = Arc::new(Mutex::new(HashSet::new()));
        set.par_iter().for_each(|n| {
            let check_set = check_set.clone();
            let missing_set = missing_set.clone();
            let mut check = check_set.lock().unwrap();
            if !check.remove(&n) {
                let mut missing = missing_set.lock().unwrap();
                missing.insert(n);
            }
        });
        let check_set = check_set.lock().unwrap();
        let missing_set = missing_set.lock().unwrap();
        if !check_set.is_empty() && !missing_set.is_empty() {
            panic!(
                "There were values that didn't get iterated: {:?}
            There were values that got iterated, but that shouldn't be: {:?}",
                *check_set, *missing_set
            );
        }
        if !check_set.is_empty() {
            panic!(
                "There were values that didn't get iterated: {:?}",
                *check_set
            );
        }
        if !missing_set.is_empty() {
            panic!(
                "There were values that got iterated, but that shouldn't be: {:?}",
                *missing_set
            );
        }
    }

    #[test]
    fn par_iter_odd_even() {
        let mut odd = BitSet::new();
        let mut even = BitSet::new();
        for i in 0..100_000 {
            if i % 2 == 1 {
                odd.add(i);
            } else {
                even.add(i);
            }
        }

        assert_eq!((&odd).par_iter().count(), 50_000);
        assert_eq!((&even).par_iter().count(), 50_000);
        assert_eq!(BitSetAnd(&odd, &even).par_iter().count(), 0);
    }

    #[test]
    fn par_iter_clusters() {
        use std::collections::HashSet;
        use std::sync::{Arc, Mutex};
        let mut set = BitSet::new();
        let mut check_set = HashSet::new();
        for x in 0..8 {
            let x = (x * 3) << (::BITS * 2); // scale to the last slot
            for y in 0..8 {
                let y = (y * 3) << (::BITS);
                for z in 0..8 {
                    let z = z * 2;
                    let index = x + y + z;
                    set.add(index);
                    check_set.insert(index);
                }
            }
        }
        let check_set = Arc::new(Mutex::new(check_set));
        let missing_set = Arc::new(Mutex::new(HashSet::new()));
        set.par_iter().for_each(|n| {
            let check_set = check_set.clone();
            let missing_set = missing_set.clone();
            let mut check = check_set.lock().unwrap();
            if !check.remove(&n) {
                let mut missing = missing_set.lock().unwrap();
                missing.insert(n);
            }
        });
        let check_set = check_set.lock().unwrap();
        let missing_set = missing_set.lock().unwrap();
        if !check_set.is_empty() && !missing_set.is_empty() {
            panic!(
                "There were values that didn't get iterated: {:?}
            There were values that got iterated, but that shouldn't be: {:?}",
                *check_set, *missing_set
            );
        }
        if !check_set.is_empty() {
            panic!(
                "There were values that didn't get iterated: {:?}",
                *check_set
            );
        }
        if !missing_set.is_empty() {
            panic!(
                "There were values that got iterated, but that shouldn't be: {:?}",
                *missing_set
            );
        }
    }
}
