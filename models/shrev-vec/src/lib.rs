//! VERIF MODEL of `shrev` (event channel).
//!
//! The real `EventChannel` is a growable ring buffer with reader bookkeeping
//! behind `UnsafeCell`s and a channel for dropped readers; CBMC runs out of
//! memory on it (23.6 GB in the smallest harness). This model keeps the
//! contract specs relies on:
//!   * `single_write` / `iter_write` append events in order;
//!   * a reader registered at some point receives, from `read`, exactly the
//!     events written after its registration / its previous `read`, in order.
//! Events are stored in a fixed-capacity append-only buffer (`CAP` events;
//! writing more panics, so a harness that exceeds it fails loudly).
//! What specs decides — whether and in which order to write events — is
//! untouched. The model is validated against the real crate natively
//! (`/verif/modelcheck`).

use std::marker::PhantomData;

/// Marker trait for data to use with the EventChannel.
pub trait Event: Send + Sync + 'static {}
impl<T> Event for T where T: Send + Sync + 'static {}

/// Number of events the modelled channel can hold.
pub const CAP: usize = 12;

/// The event channel (model).
pub struct EventChannel<E> {
    buf: [Option<E>; CAP],
    len: usize,
}

impl<E> Default for EventChannel<E>
where
    E: Event,
{
    fn default() -> Self {
        EventChannel {
            // written out (no loop): CAP entries
            buf: [None, None, None, None, None, None, None, None, None, None, None, None],
            len: 0,
        }
    }
}

impl<E> EventChannel<E>
where
    E: Event,
{
    /// Create a new EventChannel.
    pub fn new() -> Self {
        Default::default()
    }

    /// Create a new EventChannel (the model ignores the requested capacity).
    pub fn with_capacity(_size: usize) -> Self {
        Default::default()
    }

    /// Returns `true` if any reader would observe an additional event.
    pub fn would_write(&mut self) -> bool {
        true
    }

    /// Register a reader: it will receive the events written from now on.
    pub fn register_reader(&mut self) -> ReaderId<E> {
        ReaderId {
            pos: self.len,
            marker: PhantomData,
        }
    }

    /// Write a slice of events.
    pub fn slice_write(&mut self, events: &[E])
    where
        E: Clone,
    {
        for e in events {
            self.single_write(e.clone());
        }
    }

    /// Write an iterator of events.
    pub fn iter_write<I>(&mut self, iter: I)
    where
        I: IntoIterator<Item = E>,
        I::IntoIter: ExactSizeIterator,
    {
        for e in iter {
            self.single_write(e);
        }
    }

    /// Drain a vector of events into the channel.
    pub fn drain_vec_write(&mut self, events: &mut Vec<E>) {
        for e in events.drain(..) {
            self.single_write(e);
        }
    }

    /// Write a single event.
    pub fn single_write(&mut self, event: E) {
        if self.len >= CAP {
            panic!("shrev-vec: model capacity exceeded");
        }
        self.buf[self.len] = Some(event);
        self.len += 1;
    }

    /// Read the events written since the reader's last read / registration.
    pub fn read(&self, reader_id: &mut ReaderId<E>) -> EventIterator<E> {
        let from = reader_id.pos;
        reader_id.pos = self.len;
        EventIterator {
            chan: self,
            next: from,
            end: self.len,
        }
    }
}

/// The reader id: a cursor into the channel.
#[derive(Debug)]
pub struct ReaderId<E: 'static> {
    pos: usize,
    marker: PhantomData<&'static [E]>,
}

/// Iterator over the events a reader has not seen yet.
pub struct EventIterator<'a, E> {
    chan: &'a EventChannel<E>,
    next: usize,
    end: usize,
}

impl<'a, E> Iterator for EventIterator<'a, E> {
    type Item = &'a E;

    fn next(&mut self) -> Option<&'a E> {
        if self.next < self.end {
            let r = self.chan.buf[self.next].as_ref();
            self.next += 1;
            r
        } else {
            None
        }
    }

    fn size_hint(&self) -> (usize, Option<usize>) {
        let n = self.end - self.next;
        (n, Some(n))
    }
}

impl<'a, E> ExactSizeIterator for EventIterator<'a, E> {}
