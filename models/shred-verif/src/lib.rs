#![cfg_attr(feature = "nightly", feature(ptr_metadata, strict_provenance))]
// VERIF MODEL: `TypeKey` hashes `type_name` in a const block (this crate is only ever built by Kani's nightly)
#![feature(const_type_name)]
//! **Sh**ared **re**source **d**ispatcher
//!
//! This library allows to dispatch
//! systems, which can have interdependencies,
//! shared and exclusive resource access, in parallel.
//!
//! # Examples
//!
//! ```rust
//! extern crate shred;
//!
//! use shred::{DispatcherBuilder, Read, Resource, ResourceId, System, SystemData, World, Write};
//!
//! #[derive(Debug, Default)]
//! struct ResA;
//!
//! #[derive(Debug, Default)]
//! struct ResB;
//!
//! # #[cfg(feature = "shred-derive")]
//! #[derive(SystemData)] // Provided with `shred-derive` feature
//! struct Data<'a> {
//!     a: Read<'a, ResA>,
//!     b: Write<'a, ResB>,
//! }
//!
//! struct EmptySystem;
//!
//! impl<'a> System<'a> for EmptySystem {
//!     type SystemData = Data<'a>;
//!
//!     fn run(&mut self, bundle: Data<'a>) {
//!         println!("{:?}", &*bundle.a);
//!         println!("{:?}", &*bundle.b);
//!     }
//! }
//!
//! let mut world = World::empty();
//! let mut dispatcher = DispatcherBuilder::new()
//!     .with(EmptySystem, "empty", &[])
//!     .build();
//! world.insert(ResA);
//! world.insert(ResB);
//!
//! dispatcher.dispatch(&mut world);
//! #
//! # // The following is required for the snippet to compile without the `shred-derive` feature.
//! #
//! # #[cfg(not(feature = "shred-derive"))]
//! # struct Data<'a> {
//! #     a: Read<'a, ResA>,
//! #     b: Write<'a, ResB>,
//! # }
//! #
//! # #[cfg(not(feature = "shred-derive"))]
//! # impl<'a> SystemData<'a> for Data<'a> {
//! #     fn setup(world: &mut World) {
//! #         Read::<'_, ResA>::setup(world);
//! #         Write::<'_, ResB>::setup(world);
//! #     }
//! #
//! #     fn fetch(world: &'a World) -> Self {
//! #         Self {
//! #             a: Read::<'_, ResA>::fetch(world),
//! #             b: Write::<'_, ResB>::fetch(world),
//! #         }
//! #     }
//! #
//! #     fn reads() -> Vec<ResourceId> {
//! #         Read::<'_, ResA>::reads()
//! #     }
//! #
//! #     fn writes() -> Vec<ResourceId> {
//! #         Write::<'_, ResB>::writes()
//! #     }
//! # }
//! ```
//!
//! Once you are more familiar with how system data and parallelization works,
//! you can take look at a more flexible and performant way to dispatch:
//! `ParSeq`. Using it is bit trickier, but it allows dispatching without any
//! virtual function calls.

#![deny(unused_must_use, clippy::disallowed_types)]
#![deny(unsafe_op_in_unsafe_fn)]
#![warn(missing_docs)]

/// Re-exports from [`atomic_refcell`]
///
/// Mainly for internals, most users don't need to interact with this.
pub mod cell {
    pub use atomic_refcell::*;
}

mod dispatch;
mod meta;
mod system;
mod world;

/// A reexport of the `#[derive(SystemData]` macro provided by `shred-derive`.
/// This requires that the `shred-derive` feature is enabled.
#[cfg(feature = "shred-derive")]
pub use shred_derive::SystemData;

#[cfg(feature = "parallel")]
pub use crate::dispatch::AsyncDispatcher;
#[cfg(feature = "parallel")]
pub use crate::dispatch::{Par, ParSeq, RunWithPool, Seq};
pub use crate::{
    dispatch::{
        BatchAccessor, BatchController, BatchUncheckedWorld, Dispatcher, DispatcherBuilder,
        MultiDispatchController, MultiDispatcher, SendDispatcher,
    },
    meta::{CastFrom, MetaIter, MetaIterMut, MetaTable},
    system::{
        Accessor, AccessorCow, DynamicSystemData, RunNow, RunningTime, StaticAccessor, System,
        SystemData,
    },
    world::{
        DefaultProvider, Entry, Fetch, FetchMut, PanicHandler, Read, ReadExpect, Resource,
        ResourceId, SetupHandler, World, Write, WriteExpect,
    },
};

/// Alias for `World` for easier migration to the new version. Will be removed
/// in the future.
#[deprecated(since = "0.8.0", note = "renamed to `World`")]
pub type Resources = World;
