//! Module for resource related types

pub use self::{
    data::{Read, ReadExpect, Write, WriteExpect},
    entry::Entry,
    setup::{DefaultProvider, PanicHandler, SetupHandler},
};

use std::{
    any::{Any, TypeId},
    marker::PhantomData,
    ops::{Deref, DerefMut},
};

use self::restable::ResTable; // VERIF MODEL: fixed-capacity association list instead of AHashMap
pub use self::restable::TypeKey;

use crate::cell::{AtomicRef, AtomicRefCell, AtomicRefMut};
use crate::SystemData;

use self::entry::create_entry;

mod data;
mod entry;
mod res_downcast;
mod restable;
#[macro_use]
mod setup;

/// Allows to fetch a resource in a system immutably.
///
/// If the resource isn't strictly required, you should use `Option<Fetch<T>>`.
///
/// # Type parameters
///
/// * `T`: The type of the resource
pub struct Fetch<'a, T: 'a> {
    inner: Option<AtomicRef<'a, dyn Resource>>,
    // VERIF MODEL: when set, the resource is borrowed directly (no cell, no
    // trait object); see `verif_from_ref`.
    direct: Option<&'a T>,
    phantom: PhantomData<&'a T>,
}

impl<'a, T> Deref for Fetch<'a, T>
where
    T: Resource,
{
    type Target = T;

    fn deref(&self) -> &T {
        if let Some(r) = self.direct {
            return r;
        }
        unsafe { self.inner.as_ref().unwrap().downcast_ref_unchecked() }
    }
}

impl<'a, T> Clone for Fetch<'a, T> {
    fn clone(&self) -> Self {
        Fetch {
            inner: self.inner.as_ref().map(AtomicRef::clone),
            direct: self.direct,
            phantom: PhantomData,
        }
    }
}

// VERIF MODEL (shred-verif): the only difference from shred 0.16.1 is the pair of
// constructors below, which let a checker build `Fetch` / `FetchMut` from a
// caller-owned cell without a `World` (a `World` is a hash map keyed by
// `TypeId`, which CBMC cannot execute symbolically). Everything else, including
// the borrow tracking of the cell, is shred's own code.
impl<'a, T> Fetch<'a, T>
where
    T: Resource,
{
    /// VERIF MODEL: borrows the resource stored in `cell` (it must hold a `T`).
    pub fn verif_from_cell(cell: &'a AtomicRefCell<Box<dyn Resource>>) -> Self {
        Fetch {
            inner: Some(AtomicRef::map(cell.borrow(), Box::as_ref)),
            direct: None,
            phantom: PhantomData,
        }
    }

    /// VERIF MODEL: borrows `r` directly (no cell, no trait object).
    pub fn verif_from_ref(r: &'a T) -> Self {
        Fetch {
            inner: None,
            direct: Some(r),
            phantom: PhantomData,
        }
    }
}

impl<'a, T> FetchMut<'a, T>
where
    T: Resource,
{
    /// VERIF MODEL: mutably borrows the resource stored in `cell` (it must hold a `T`).
    pub fn verif_from_cell(cell: &'a AtomicRefCell<Box<dyn Resource>>) -> Self {
        FetchMut {
            inner: Some(AtomicRefMut::map(cell.borrow_mut(), Box::as_mut)),
            direct: None,
            phantom: PhantomData,
        }
    }

    /// VERIF MODEL: borrows `r` directly (no cell, no trait object).
    pub fn verif_from_mut(r: &'a mut T) -> Self {
        FetchMut {
            inner: None,
            direct: Some(r),
            phantom: PhantomData,
        }
    }
}

/// Allows to fetch a resource in a system mutably.
///
/// If the resource isn't strictly required, you should use
/// `Option<FetchMut<T>>`.
///
/// # Type parameters
///
/// * `T`: The type of the resource
pub struct FetchMut<'a, T: 'a> {
    inner: Option<AtomicRefMut<'a, dyn Resource>>,
    // VERIF MODEL: see `Fetch::direct`
    direct: Option<&'a mut T>,
    phantom: PhantomData<&'a mut T>,
}

impl<'a, T> Deref for FetchMut<'a, T>
where
    T: Resource,
{
    type Target = T;

    fn deref(&self) -> &T {
        if let Some(r) = self.direct.as_ref() {
            return r;
        }
        unsafe { self.inner.as_ref().unwrap().downcast_ref_unchecked() }
    }
}

impl<'a, T> DerefMut for FetchMut<'a, T>
where
    T: Resource,
{
    fn deref_mut(&mut self) -> &mut T {
        if let Some(r) = self.direct.as_mut() {
            return r;
        }
        unsafe { self.inner.as_mut().unwrap().downcast_mut_unchecked() }
    }
}

/// A resource is a data slot which lives in the `World` can only be accessed
/// according to Rust's typical borrowing model (one writer xor multiple
/// readers).
#[cfg(feature = "parallel")]
pub trait Resource: Any + Send + Sync + 'static {
    /// VERIF MODEL: the `TypeKey` of the concrete type (stands in for `Any::type_id`).
    #[doc(hidden)]
    fn verif_type_key(&self) -> TypeKey {
        TypeKey::of::<Self>()
    }
}

/// A resource is a data slot which lives in the `World` can only be accessed
/// according to Rust's typical borrowing model (one writer xor multiple
/// readers).
#[cfg(not(feature = "parallel"))]
pub trait Resource: Any + 'static {
    /// VERIF MODEL: the `TypeKey` of the concrete type (stands in for `Any::type_id`).
    #[doc(hidden)]
    fn verif_type_key(&self) -> TypeKey {
        TypeKey::of::<Self>()
    }
}

#[cfg(feature = "parallel")]
impl<T> Resource for T where T: Any + Send + Sync {}
#[cfg(not(feature = "parallel"))]
impl<T> Resource for T where T: Any {}

/// The id of a [`Resource`], which simply wraps a type id and a "dynamic ID".
/// The "dynamic ID" is usually just left `0`, and, unless such documentation
/// says otherwise, other libraries will assume that it is always `0`; non-zero
/// IDs are only used for special resource types that are specifically defined
/// in a more dynamic way, such that resource types can essentially be created
/// at run time, without having different static types.
///
/// [`Resource`]: trait.Resource.html
#[derive(Clone, Debug, Eq, Hash, Ord, PartialEq, PartialOrd)]
pub struct ResourceId {
    type_id: TypeKey, // VERIF MODEL: a per-type integer constant instead of `TypeId`
    dynamic_id: u64,
}

impl ResourceId {
    /// Creates a new resource id from a given type.
    #[inline]
    pub fn new<T: Resource>() -> Self {
        ResourceId::new_with_dynamic_id::<T>(0)
    }

    /// Create a new resource id from a raw type ID.
    #[inline]
    pub fn from_type_id(type_id: TypeKey) -> Self {
        ResourceId::from_type_id_and_dynamic_id(type_id, 0)
    }

    /// Creates a new resource id from a given type and a `dynamic_id`.
    ///
    /// This is usually not what you want (unless you're implementing scripting
    /// with `shred` or some similar mechanism to define resources at run-time).
    ///
    /// Creating resource IDs with a `dynamic_id` unequal to `0` is only
    /// recommended for special types that are specifically defined for
    /// scripting; most libraries will just assume that resources are
    /// identified only by their type.
    #[inline]
    pub fn new_with_dynamic_id<T: Resource>(dynamic_id: u64) -> Self {
        ResourceId::from_type_id_and_dynamic_id(TypeKey::of::<T>(), dynamic_id)
    }

    /// Create a new resource id from a raw type ID and a "dynamic ID" (see type
    /// documentation).
    #[inline]
    pub fn from_type_id_and_dynamic_id(type_id: TypeKey, dynamic_id: u64) -> Self {
        ResourceId {
            type_id,
            dynamic_id,
        }
    }

    fn assert_same_type_id<R: Resource>(&self) {
        let res_id0 = ResourceId::new::<R>();
        assert_eq!(
            res_id0.type_id, self.type_id,
            "Passed a `ResourceId` with a wrong type ID"
        );
    }
}

/// A [Resource] container, which provides methods to insert, access and manage
/// the contained resources.
///
/// Many methods take `&self` which works because everything
/// is stored with **interior mutability**. In case you violate
/// the borrowing rules of Rust (multiple reads xor one write),
/// you will get a panic.
///
/// # Use with Specs
///
/// If you're using this from the Specs ECS library, there are two things to be
/// aware of:
///
/// 1. There are many utility methods Specs provides. To use them, you need to
/// import `specs::WorldExt`.
/// 2. You should not use [World::empty], but rather `specs::WorldExt::new`. The
/// latter can simply be called using `World::new()`, as long as `WorldExt`
/// is imported.
///
/// # Resource Ids
///
/// Resources are identified by `ResourceId`s, which consist of a `TypeId`.
#[derive(Default)]
pub struct World {
    resources: ResTable,
}

impl World {
    /// Creates a new, empty resource container.
    ///
    /// Note that if you're using Specs, you should use `WorldExt::new` instead.
    pub fn empty() -> Self {
        Default::default()
    }

    /// Inserts a resource into this container. If the resource existed before,
    /// it will be overwritten.
    ///
    /// # Examples
    ///
    /// Every type satisfying `Any + Send + Sync` automatically
    /// implements `Resource`, thus can be added:
    ///
    /// ```rust
    /// # #![allow(dead_code)]
    /// struct MyRes(i32);
    /// ```
    ///
    /// When you have a resource, simply insert it like this:
    ///
    /// ```rust
    /// # struct MyRes(i32);
    /// use shred::World;
    ///
    /// let mut world = World::empty();
    /// world.insert(MyRes(5));
    /// ```
    pub fn insert<R>(&mut self, r: R)
    where
        R: Resource,
    {
        self.insert_by_id(ResourceId::new::<R>(), r);
    }

    /// Removes a resource of type `R` from the `World` and returns its
    /// ownership to the caller. In case there is no such resource in this
    /// `World`, `None` will be returned.
    ///
    /// Use this method with caution; other functions and systems might assume
    /// this resource still exists. Thus, only use this if you're sure no
    /// system will try to access this resource after you removed it (or else
    /// you will get a panic).
    pub fn remove<R>(&mut self) -> Option<R>
    where
        R: Resource,
    {
        self.remove_by_id(ResourceId::new::<R>())
    }

    /// Returns true if the specified resource type `R` exists in `self`.
    pub fn has_value<R>(&self) -> bool
    where
        R: Resource,
    {
        self.has_value_raw(ResourceId::new::<R>())
    }

    /// Returns true if the specified resource type exists in `self`.
    pub fn has_value_raw(&self, id: ResourceId) -> bool {
        self.resources.contains_key(&id)
    }

    /// Returns an entry for the resource with type `R`.
    pub fn entry<R>(&mut self) -> Entry<R>
    where
        R: Resource,
    {
        create_entry(&mut self.resources, ResourceId::new::<R>())
    }

    /// Gets `SystemData` `T` from the `World`. This can be used to retrieve
    /// data just like in [System](crate::System)s.
    ///
    /// This will not setup the system data, i.e. resources fetched here must
    /// exist already.
    ///
    /// # Examples
    ///
    /// ```
    /// # use shred::*;
    /// # #[derive(Default)] struct Timer; #[derive(Default)] struct AnotherResource;
    ///
    /// // NOTE: If you use Specs, use `World::new` instead.
    /// let mut world = World::empty();
    /// world.insert(Timer);
    /// world.insert(AnotherResource);
    /// let system_data: (Read<Timer>, Read<AnotherResource>) = world.system_data();
    /// ```
    ///
    /// # Panics
    ///
    /// * Panics if `T` is already borrowed in an incompatible way.
    pub fn system_data<'a, T>(&'a self) -> T
    where
        T: SystemData<'a>,
    {
        SystemData::fetch(self)
    }

    /// Sets up system data `T` for fetching afterwards.
    ///
    /// Most `SystemData` implementations will insert a sensible default value,
    /// by implementing [SystemData::setup]. However, it is not guaranteed to
    /// do that; if there is no sensible default, `setup` might not do anything.
    ///
    /// # Examples
    ///
    /// ```
    /// use shred::{Read, World};
    ///
    /// #[derive(Default)]
    /// struct MyCounter(u32);
    ///
    /// // NOTE: If you use Specs, use `World::new` instead.
    /// let mut world = World::empty();
    /// assert!(!world.has_value::<MyCounter>());
    ///
    /// // `Read<MyCounter>` requires a `Default` implementation, and uses
    /// // that to initialize the resource
    /// world.setup::<Read<MyCounter>>();
    /// assert!(world.has_value::<MyCounter>());
    /// ```
    ///
    /// Here's another example, showing the case where no resource gets
    /// initialized:
    ///
    /// ```
    /// use shred::{ReadExpect, World};
    ///
    /// struct MyCounter(u32);
    ///
    /// // NOTE: If you use Specs, use `World::new` instead.
    /// let mut world = World::empty();
    ///
    /// world.setup::<ReadExpect<MyCounter>>();
    /// ```
    pub fn setup<'a, T: SystemData<'a>>(&mut self) {
        T::setup(self);
    }

    /// Executes `f` once, right now and with the specified system data.
    ///
    /// This sets up the system data `f` expects, fetches it and then
    /// executes `f`. This is essentially like a one-time
    /// [System](crate::System).
    ///
    /// This is especially useful if you either need a lot of system data or,
    /// with Specs, if you want to build an entity and for that you need to
    /// access resources first - just fetching the resources and building
    /// the entity would cause a double borrow.
    ///
    /// **Calling this method is equivalent to:**
    ///
    /// ```
    /// # use shred::*;
    /// # struct MySystemData; impl MySystemData { fn do_something(&self) {} }
    /// # impl<'a> SystemData<'a> for MySystemData {
    /// #     fn fetch(res: &World) -> Self { MySystemData }
    /// #     fn reads() -> Vec<ResourceId> { vec![] }
    /// #     fn writes() -> Vec<ResourceId> { vec![] }
    /// #     fn setup(res: &mut World) {}
    /// # }
    /// # let mut world = World::empty();
    /// {
    ///     // note the extra scope
    ///     world.setup::<MySystemData>();
    ///     let my_data: MySystemData = world.system_data();
    ///     my_data.do_something();
    /// }
    /// ```
    ///
    /// # Examples
    ///
    /// ```
    /// # use shred::*;
    /// // NOTE: If you use Specs, use `World::new` instead.
    /// let mut world = World::empty();
    ///
    /// #[derive(Default)]
    /// struct MyRes {
    ///     field: i32,
    /// }
    ///
    /// world.exec(|(mut my_res,): (Write<MyRes>,)| {
    ///     assert_eq!(my_res.field, 0);
    ///     my_res.field = 5;
    /// });
    ///
    /// assert_eq!(world.fetch::<MyRes>().field, 5);
    /// ```
    pub fn exec<'a, F, R, T>(&'a mut self, f: F) -> R
    where
        F: FnOnce(T) -> R,
        T: SystemData<'a>,
    {
        self.setup::<T>();
        f(self.system_data())
    }

    /// Fetches the resource with the specified type `T` or panics if it doesn't
    /// exist.
    ///
    /// # Panics
    ///
    /// Panics if the resource doesn't exist.
    /// Panics if the resource is being accessed mutably.
    pub fn fetch<T>(&self) -> Fetch<T>
    where
        T: Resource,
    {
        self.try_fetch().unwrap_or_else(|| {
            if self.resources.is_empty() {
                eprintln!(
                    "Note: Could not find a resource (see the following panic);\
                     the `World` is completely empty. Did you accidentally create a fresh `World`?"
                )
            }

            fetch_panic!()
        })
    }

    /// Like `fetch`, but returns an `Option` instead of inserting a default
    /// value in case the resource does not exist.
    pub fn try_fetch<T>(&self) -> Option<Fetch<T>>
    where
        T: Resource,
    {
        let res_id = ResourceId::new::<T>();

        self.resources.get(&res_id).map(|r| Fetch {
            inner: Some(AtomicRef::map(r.borrow(), Box::as_ref)),
            direct: None,
            phantom: PhantomData,
        })
    }

    /// Like `try_fetch`, but fetches the resource by its `ResourceId` which
    /// allows using a dynamic ID.
    ///
    /// This is usually not what you need; please read the type-level
    /// documentation of `ResourceId`.
    ///
    /// # Panics
    ///
    /// This method panics if `id` refers to a different type ID than `T`.
    pub fn try_fetch_by_id<T>(&self, id: ResourceId) -> Option<Fetch<T>>
    where
        T: Resource,
    {
        id.assert_same_type_id::<T>();

        self.resources.get(&id).map(|r| Fetch {
            inner: Some(AtomicRef::map(r.borrow(), Box::as_ref)),
            direct: None,
            phantom: PhantomData,
        })
    }

    /// Fetches the resource with the specified type `T` mutably.
    ///
    /// Please see `fetch` for details.
    ///
    /// # Panics
    ///
    /// Panics if the resource doesn't exist.
    /// Panics if the resource is already being accessed.
    pub fn fetch_mut<T>(&self) -> FetchMut<T>
    where
        T: Resource,
    {
        self.try_fetch_mut().unwrap_or_else(|| fetch_panic!())
    }

    /// Like `fetch_mut`, but returns an `Option` instead of inserting a default
    /// value in case the resource does not exist.
    pub fn try_fetch_mut<T>(&self) -> Option<FetchMut<T>>
    where
        T: Resource,
    {
        let res_id = ResourceId::new::<T>();

        self.resources.get(&res_id).map(|r| FetchMut {
            inner: Some(AtomicRefMut::map(r.borrow_mut(), Box::as_mut)),
            direct: None,
            phantom: PhantomData,
        })
    }

    /// Like `try_fetch_mut`, but fetches the resource by its `ResourceId` which
    /// allows using a dynamic ID.
    ///
    /// This is usually not what you need; please read the type-level
    /// documentation of `ResourceId`.
    ///
    /// # Panics
    ///
    /// This method panics if `id` refers to a different type ID than `T`.
    pub fn try_fetch_mut_by_id<T>(&self, id: ResourceId) -> Option<FetchMut<T>>
    where
        T: Resource,
    {
        id.assert_same_type_id::<T>();

        self.resources.get(&id).map(|r| FetchMut {
            inner: Some(AtomicRefMut::map(r.borrow_mut(), Box::as_mut)),
            direct: None,
            phantom: PhantomData,
        })
    }

    /// Internal function for inserting resources, should only be used if you
    /// know what you're doing.
    ///
    /// This is useful for inserting resources with a custom `ResourceId`.
    ///
    /// # Panics
    ///
    /// This method panics if `id` refers to a different type ID than `R`.
    pub fn insert_by_id<R>(&mut self, id: ResourceId, r: R)
    where
        R: Resource,
    {
        id.assert_same_type_id::<R>();

        self.resources.insert(id, AtomicRefCell::new(Box::new(r)));
    }

    /// Internal function for removing resources, should only be used if you
    /// know what you're doing.
    ///
    /// This is useful for removing resources with a custom `ResourceId`.
    ///
    /// # Panics
    ///
    /// This method panics if `id` refers to a different type ID than `R`.
    pub fn remove_by_id<R>(&mut self, id: ResourceId) -> Option<R>
    where
        R: Resource,
    {
        // False-positive
        #![allow(clippy::redundant_closure)]

        id.assert_same_type_id::<R>();

        self.resources
            .remove(&id)
            .map(AtomicRefCell::into_inner)
            .map(|x: Box<dyn Resource>| x.downcast())
            .map(|x: Result<Box<R>, _>| x.ok().unwrap())
            .map(|x| *x)
    }

    /// Internal function for fetching resources, should only be used if you
    /// know what you're doing.
    ///
    /// # Safety
    ///
    /// If this is used to replace the `Box<dyn Resource>` with a different one, the new one must
    /// have a `TypeId` that matches the one in the `ResourceId` provided here.
    pub unsafe fn try_fetch_internal(
        &self,
        id: ResourceId,
    ) -> Option<&AtomicRefCell<Box<dyn Resource>>> {
        self.resources.get(&id)
    }

    /// Retrieves a resource without fetching, which is cheaper, but only
    /// available with `&mut self`.
    pub fn get_mut<T: Resource>(&mut self) -> Option<&mut T> {
        self.get_mut_raw(ResourceId::new::<T>())
            .map(|res| unsafe { res.downcast_mut_unchecked() })
    }

    /// Retrieves a resource without fetching, which is cheaper, but only
    /// available with `&mut self`.
    pub fn get_mut_raw(&mut self, id: ResourceId) -> Option<&mut dyn Resource> {
        self.resources
            .get_mut(&id)
            .map(AtomicRefCell::get_mut)
            .map(Box::as_mut)
    }
}

#[cfg(test)]
mod tests {
    use super::*;
    use crate::{RunNow, System, SystemData};

    #[derive(Default)]
    struct Res;

    #[test]
    fn fetch_aspects() {
        assert_eq!(Read::<Res>::reads(), vec![ResourceId::new::<Res>()]);
        assert_eq!(Read::<Res>::writes(), vec![]);

        let mut world = World::empty();
        world.insert(Res);
        <Read<Res> as SystemData>::fetch(&world);
    }

    #[test]
    fn fetch_mut_aspects() {
        assert_eq!(Write::<Res>::reads(), vec![]);
        assert_eq!(Write::<Res>::writes(), vec![ResourceId::new::<Res>()]);

        let mut world = World::empty();
        world.insert(Res);
        <Write<Res> as SystemData>::fetch(&world);
    }

    #[test]
    fn fetch_by_id() {
        #![allow(clippy::map_clone)] // False positive

        let mut world = World::empty();

        world.insert_by_id(ResourceId::new_with_dynamic_id::<i32>(1), 5);
        world.insert_by_id(ResourceId::new_with_dynamic_id::<i32>(2), 15);
        world.insert_by_id(ResourceId::new_with_dynamic_id::<i32>(3), 45);

        assert_eq!(
            world
                .try_fetch_by_id::<i32>(ResourceId::new_with_dynamic_id::<i32>(2))
                .map(|x| *x),
            Some(15)
        );
        assert_eq!(
            world
                .try_fetch_by_id::<i32>(ResourceId::new_with_dynamic_id::<i32>(1))
                .map(|x| *x),
            Some(5)
        );
        assert_eq!(
            world
                .try_fetch_by_id::<i32>(ResourceId::new_with_dynamic_id::<i32>(3))
                .map(|x| *x),
            Some(45)
        );
    }

    #[test]
    fn system_data() {
        let mut world = World::empty();

        world.insert(5u32);
        let x = *world.system_data::<Read<u32>>();
        assert_eq!(x, 5);
    }

    #[test]
    fn setup() {
        let mut world = World::empty();

        world.insert(5u32);
        world.setup::<Read<u32>>();
        let x = *world.system_data::<Read<u32>>();
        assert_eq!(x, 5);

        world.remove::<u32>();
        world.setup::<Read<u32>>();
        let x = *world.system_data::<Read<u32>>();
        assert_eq!(x, 0);
    }

    #[test]
    fn exec() {
        #![allow(clippy::float_cmp)]

        let mut world = World::empty();

        world.exec(|(float, boolean): (Read<f32>, Read<bool>)| {
            assert_eq!(*float, 0.0);
            assert!(!*boolean);
        });

        world.exec(|(mut float, mut boolean): (Write<f32>, Write<bool>)| {
            *float = 4.3;
            *boolean = true;
        });

        world.exec(|(float, boolean): (Read<f32>, ReadExpect<bool>)| {
            assert_eq!(*float, 4.3);
            assert!(*boolean);
        });
    }

    #[test]
    #[should_panic]
    fn exec_panic() {
        let mut world = World::empty();

        world.exec(|(_float, _boolean): (Write<f32>, Write<bool>)| {
            panic!();
        });
    }

    #[test]
    #[should_panic]
    fn invalid_fetch_by_id0() {
        let mut world = World::empty();

        world.insert(5i32);

        world.try_fetch_by_id::<u32>(ResourceId::new_with_dynamic_id::<i32>(111));
    }

    #[test]
    #[should_panic]
    fn invalid_fetch_by_id1() {
        let mut world = World::empty();

        world.insert(5i32);

        world.try_fetch_by_id::<i32>(ResourceId::new_with_dynamic_id::<u32>(111));
    }

    #[test]
    fn add() {
        struct Foo;

        let mut world = World::empty();
        world.insert(Res);

        assert!(world.has_value::<Res>());
        assert!(!world.has_value::<Foo>());
    }

    #[allow(unused)]
    #[test]
    #[should_panic(expected = "already immutably borrowed")]
    fn read_write_fails() {
        let mut world = World::empty();
        world.insert(Res);

        let read: Fetch<Res> = world.fetch();
        let write: FetchMut<Res> = world.fetch_mut();
    }

    #[allow(unused)]
    #[test]
    #[should_panic(expected = "already mutably borrowed")]
    fn write_read_fails() {
        let mut world = World::empty();
        world.insert(Res);

        let write: FetchMut<Res> = world.fetch_mut();
        let read: Fetch<Res> = world.fetch();
    }

    #[test]
    fn remove_insert() {
        let mut world = World::empty();

        world.insert(Res);

        assert!(world.has_value::<Res>());

        println!("{:#?}", world.resources.keys().collect::<Vec<_>>());

        world.remove::<Res>().unwrap();

        assert!(!world.has_value::<Res>());

        world.insert(Res);

        assert!(world.has_value::<Res>());
    }

    #[test]
    fn default_works() {
        struct Sys;

        impl<'a> System<'a> for Sys {
            type SystemData = Write<'a, i32>;

            fn run(&mut self, mut data: Self::SystemData) {
                assert_eq!(*data, 0);

                *data = 33;
            }
        }

        let mut world = World::empty();
        assert!(world.try_fetch::<i32>().is_none());

        let mut sys = Sys;
        RunNow::setup(&mut sys, &mut world);

        sys.run_now(&world);

        assert!(world.try_fetch::<i32>().is_some());
        assert_eq!(*world.fetch::<i32>(), 33);
    }
}
