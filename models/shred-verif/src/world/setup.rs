use crate::{Resource, World};

// VERIF MODEL: the message is a literal (shred formats the type name through `tynm`, a
// string parser that the symbolic executor would have to run on every fetch site)
macro_rules! fetch_panic {
    () => {{
        panic!("Tried to fetch a resource from the `World`, but the resource does not exist")
    }};
}

/// A `SetupHandler` that simply uses the default implementation.
pub struct DefaultProvider;

impl<T> SetupHandler<T> for DefaultProvider
where
    T: Default + Resource,
{
    fn setup(world: &mut World) {
        world.entry().or_insert_with(T::default);
    }
}

/// A setup handler performing the fetching of `T`.
pub trait SetupHandler<T>: Sized {
    /// Sets up `World` for fetching `T`.
    fn setup(world: &mut World);
}

/// A setup handler that simply does nothing and thus will cause a panic on
/// fetching.
///
/// A typedef called `ReadExpect` exists, so you usually don't use this type
/// directly.
pub struct PanicHandler;

impl<T> SetupHandler<T> for PanicHandler
where
    T: Resource,
{
    fn setup(_: &mut World) {}
}
