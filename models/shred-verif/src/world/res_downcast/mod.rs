//! Code is based on <https://github.com/chris-morgan/mopa>
//! with the macro inlined for `Resource`. License files can be found in the
//! directory of this source file, see COPYRIGHT, LICENSE-APACHE and
//! LICENSE-MIT.

#[cfg(test)]
mod tests;

use std::any::TypeId;

use crate::Resource;

impl dyn Resource {
    /// Returns the boxed value if it is of type `T`, or `Err(Self)` if it
    /// isn't.
    #[inline]
    pub fn downcast<T: Resource>(self: Box<Self>) -> Result<Box<T>, Box<Self>> {
        if self.is::<T>() {
            // SAFETY: We just checked that the type is `T`.
            unsafe { Ok(self.downcast_unchecked()) }
        } else {
            Err(self)
        }
    }

    /// Returns the boxed value, blindly assuming it to be of type `T`.
    ///
    /// # Safety
    ///
    /// If you are not *absolutely certain* of `T`, you *must not* call this.
    /// Using anything other than the correct type `T` for this `Resource`
    /// will result in UB.
    #[inline]
    pub unsafe fn downcast_unchecked<T: Resource>(self: Box<Self>) -> Box<T> {
        // SAFETY: Caller promises the concrete type is `T`.
        unsafe { Box::from_raw(Box::into_raw(self) as *mut T) }
    }

    /// Returns true if the boxed type is the same as `T`
    #[inline]
    pub fn is<T: Resource>(&self) -> bool {
        crate::world::TypeKey::of::<T>() == self.verif_type_key() // VERIF MODEL: key instead of TypeId
    }

    /// Returns some reference to the boxed value if it is of type `T`, or
    /// `None` if it isn't.
    #[inline]
    pub fn downcast_ref<T: Resource>(&self) -> Option<&T> {
        if self.is::<T>() {
            // SAFETY: We just checked that the type is `T`.
            unsafe { Some(self.downcast_ref_unchecked()) }
        } else {
            Option::None
        }
    }

    /// Returns a reference to the boxed value, blindly assuming it to be of
    /// type `T`.
    ///
    /// # Safety
    ///
    /// If you are not *absolutely certain* of `T`, you *must not* call this.
    /// Using anything other than the correct type `T` for this `Resource`
    /// will result in UB.
    #[inline]
    pub unsafe fn downcast_ref_unchecked<T: Resource>(&self) -> &T {
        // SAFETY: Caller promises the concrete type is `T`.
        unsafe { &*(self as *const Self as *const T) }
    }

    /// Returns some mutable reference to the boxed value if it is of type `T`,
    /// or `None` if it isn't.
    #[inline]
    pub fn downcast_mut<T: Resource>(&mut self) -> Option<&mut T> {
        if self.is::<T>() {
            // SAFETY: We just checked that the type is `T`.
            unsafe { Some(self.downcast_mut_unchecked()) }
        } else {
            Option::None
        }
    }

    /// Returns a mutable reference to the boxed value, blindly assuming it to
    /// be of type `T`.
    ///
    /// # Safety
    ///
    /// If you are not *absolutely certain* of `T`, you *must not* call this.
    /// Using anything other than the correct type `T` for this `Resource`
    /// will result in UB.
    #[inline]
    pub unsafe fn downcast_mut_unchecked<T: Resource>(&mut self) -> &mut T {
        // SAFETY: Caller promises the concrete type is `T`.
        unsafe { &mut *(self as *mut Self as *mut T) }
    }
}
