//! VERIF MODEL (shred-verif): the resource table of a `World`.
//!
//! shred keeps its resources in an `AHashMap<ResourceId, AtomicRefCell<Box<dyn Resource>>>`
//! keyed by `TypeId`. Neither half is executable by CBMC: the hash of a `TypeId` mixes an
//! address, and `TypeId == TypeId` is a comparison of address-carrying constants that the
//! symbolic executor does not fold, so every lookup becomes an n-way symbolic choice between
//! boxes of different types.
//!
//! The model keeps the *values* exactly as shred does (`AtomicRefCell<Box<dyn Resource>>`,
//! borrow tracking included) and replaces
//!   * the key by `TypeKey`: a 64-bit FNV-1a hash of `core::any::type_name::<T>()` evaluated
//!     in a `const` block, i.e. a plain integer constant per type, and
//!   * the map by a fixed-capacity association list with unrolled lookups.
//!
//! Assumption (stated in every evidence file that uses a `World`): the resource types of one
//! harness have pairwise distinct type names (they do: the harness crates define them side by
//! side), so `TypeKey` equality coincides with `TypeId` equality.

use crate::cell::AtomicRefCell;
use crate::world::{Resource, ResourceId};

/// A per-type integer constant standing in for `TypeId`.
#[derive(Clone, Copy, Debug, Eq, Hash, Ord, PartialEq, PartialOrd)]
pub struct TypeKey(pub u64);

const fn fnv(s: &str) -> u64 {
    let b = s.as_bytes();
    let mut h: u64 = 0xcbf2_9ce4_8422_2325;
    let mut i = 0;
    while i < b.len() {
        h ^= b[i] as u64;
        h = h.wrapping_mul(0x0000_0100_0000_01b3);
        i += 1;
    }
    h
}

impl TypeKey {
    /// The key of `T` (a compile-time constant).
    #[inline(always)]
    pub const fn of<T: ?Sized + 'static>() -> TypeKey {
        TypeKey(const { fnv(core::any::type_name::<T>()) })
    }
}

/// Number of resources a model `World` can hold.
pub const RES_CAP: usize = 8;

type Cell = AtomicRefCell<Box<dyn Resource>>;

/// Fixed-capacity association list `ResourceId -> cell`.
pub struct ResTable {
    keys: [Option<ResourceId>; RES_CAP],
    vals: [Option<Box<Cell>>; RES_CAP], // boxed: each cell is its own heap object
}

impl Default for ResTable {
    fn default() -> Self {
        ResTable {
            keys: [None, None, None, None, None, None, None, None],
            vals: [None, None, None, None, None, None, None, None],
        }
    }
}

macro_rules! unrolled {
    ($i:ident, $body:block) => {{
        { let $i = 0usize; $body }
        { let $i = 1usize; $body }
        { let $i = 2usize; $body }
        { let $i = 3usize; $body }
        { let $i = 4usize; $body }
        { let $i = 5usize; $body }
        { let $i = 6usize; $body }
        { let $i = 7usize; $body }
    }};
}

impl ResTable {
    #[inline]
    fn slot_of(&self, id: &ResourceId) -> Option<usize> {
        unrolled!(i, {
            if let Some(k) = &self.keys[i] {
                if k == id {
                    return Some(i);
                }
            }
        });
        None
    }

    #[inline]
    fn free_slot(&self) -> usize {
        unrolled!(i, {
            if self.keys[i].is_none() {
                return i;
            }
        });
        panic!("VERIF MODEL: model capacity exceeded (more than RES_CAP resources in a World)");
    }

    pub fn is_empty(&self) -> bool {
        unrolled!(i, {
            if self.keys[i].is_some() {
                return false;
            }
        });
        true
    }

    pub fn contains_key(&self, id: &ResourceId) -> bool {
        self.slot_of(id).is_some()
    }

    pub fn get(&self, id: &ResourceId) -> Option<&Cell> {
        match self.slot_of(id) {
            Some(i) => self.vals[i].as_deref(),
            None => None,
        }
    }

    pub fn get_mut(&mut self, id: &ResourceId) -> Option<&mut Cell> {
        match self.slot_of(id) {
            Some(i) => self.vals[i].as_deref_mut(),
            None => None,
        }
    }

    /// Inserts, returning the previous value.
    pub fn insert(&mut self, id: ResourceId, v: Cell) -> Option<Cell> {
        match self.slot_of(&id) {
            Some(i) => self.vals[i].replace(Box::new(v)).map(|b| *b),
            None => {
                let i = self.free_slot();
                self.keys[i] = Some(id);
                self.vals[i] = Some(Box::new(v));
                None
            }
        }
    }

    pub fn remove(&mut self, id: &ResourceId) -> Option<Cell> {
        match self.slot_of(id) {
            Some(i) => {
                self.keys[i] = None;
                self.vals[i].take().map(|b| *b)
            }
            None => None,
        }
    }

    /// The cell for `id`, inserting `f()` first if there is none.
    pub fn get_or_insert_with<F: FnOnce() -> Cell>(&mut self, id: ResourceId, f: F) -> &mut Cell {
        let i = match self.slot_of(&id) {
            Some(i) => i,
            None => {
                let i = self.free_slot();
                self.keys[i] = Some(id);
                self.vals[i] = Some(Box::new(f()));
                i
            }
        };
        self.vals[i].as_deref_mut().unwrap()
    }

    pub fn keys(&self) -> impl Iterator<Item = &ResourceId> {
        self.keys.iter().filter_map(|k| k.as_ref())
    }
}
