use std::marker::PhantomData;

use crate::{
    cell::{AtomicRefCell, AtomicRefMut},
    world::{FetchMut, Resource, ResourceId},
};

use super::restable::ResTable; // VERIF MODEL: entry into the association list

/// An entry to a resource of the `World` struct.
/// This is similar to the Entry API found in the standard library.
///
/// ## Examples
///
/// ```
/// use shred::World;
///
/// #[derive(Debug)]
/// struct Res(i32);
///
/// let mut world = World::empty();
///
/// let value = world.entry().or_insert(Res(4));
/// println!("{:?}", value.0 * 2);
/// ```
pub struct Entry<'a, T: 'a> {
    table: &'a mut ResTable,
    id: ResourceId,
    marker: PhantomData<T>,
}

impl<'a, T> Entry<'a, T>
where
    T: Resource + 'a,
{
    /// Returns this entry's value, inserts and returns `v` otherwise.
    ///
    /// Please note that you should use `or_insert_with` in case the creation of
    /// the value is expensive.
    pub fn or_insert(self, v: T) -> FetchMut<'a, T> {
        self.or_insert_with(move || v)
    }

    /// Returns this entry's value, inserts and returns the return value of `f`
    /// otherwise.
    pub fn or_insert_with<F>(self, f: F) -> FetchMut<'a, T>
    where
        F: FnOnce() -> T,
    {
        let value = self
            .table
            .get_or_insert_with(self.id, move || AtomicRefCell::new(Box::new(f())));
        let inner = AtomicRefMut::map(value.borrow_mut(), Box::as_mut);

        FetchMut {
            inner: Some(inner),
            direct: None,
            phantom: PhantomData,
        }
    }
}

pub(super) fn create_entry<T>(table: &mut ResTable, id: ResourceId) -> Entry<T> {
    Entry {
        table,
        id,
        marker: PhantomData,
    }
}

#[cfg(test)]
mod tests {
    use crate::world::World;

    #[test]
    fn test_entry() {
        struct Res;

        let mut world = World::empty();
        world.entry().or_insert(Res);

        assert!(world.has_value::<Res>());
    }
}
