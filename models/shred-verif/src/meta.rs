use std::marker::PhantomData;

// VERIF MODEL: `TypeKey` (a per-type integer constant) instead of `TypeId`, and a linear search
// over `tys` instead of the `AHashMap<TypeId, usize>` index (see world/restable.rs)
use crate::world::TypeKey;

use crate::cell::{AtomicRef, AtomicRefMut};
use crate::{Resource, ResourceId, World};

#[cfg(feature = "nightly")]
use core::ptr::{DynMetadata, Pointee};

/// This implements `Send` and `Sync` unconditionally.
/// (the trait itself doesn't need to have these bounds and the
/// resources are already guaranteed to fulfill it).
struct Invariant<T: ?Sized>(*mut T);

unsafe impl<T> Send for Invariant<T> where T: ?Sized {}

unsafe impl<T> Sync for Invariant<T> where T: ?Sized {}

/// Helper trait for the `MetaTable`.
///
/// This trait is required to be implemented for a trait to be compatible with
/// the meta table.
///
/// # Safety
///
/// The produced pointer must have the same provenance and address as the
/// provided pointer and a vtable that is valid for the type `T`.
///
/// # Examples
///
/// ```
/// use shred::CastFrom;
///
/// trait Foo {
///     fn foo1(&self);
///     fn foo2(&mut self, x: i32) -> i32;
/// }
///
/// unsafe impl<T> CastFrom<T> for dyn Foo
/// where
///     T: Foo + 'static,
/// {
///     fn cast(t: *mut T) -> *mut (dyn Foo + 'static) {
///         t
///     }
/// }
/// ```
pub unsafe trait CastFrom<T> {
    /// Casts a concrete pointer to `T` to a trait object pointer.
    fn cast(t: *mut T) -> *mut Self;
}

/// An iterator for the `MetaTable`.
pub struct MetaIter<'a, T: ?Sized + 'a> {
    #[cfg(not(feature = "nightly"))]
    vtable_fns: &'a [fn(*mut ()) -> *mut T],
    #[cfg(feature = "nightly")]
    vtables: &'a [DynMetadata<T>],
    index: usize,
    tys: &'a [TypeKey],
    // `MetaIter` is invariant over `T`
    marker: PhantomData<Invariant<T>>,
    world: &'a World,
}

#[cfg(not(feature = "nightly"))]
impl<'a, T> Iterator for MetaIter<'a, T>
where
    T: ?Sized + 'a,
{
    type Item = AtomicRef<'a, T>;

    #[allow(clippy::borrowed_box)] // variant of https://github.com/rust-lang/rust-clippy/issues/5770
    fn next(&mut self) -> Option<<Self as Iterator>::Item> {
        loop {
            let resource_id = match self.tys.get(self.index) {
                Some(&x) => ResourceId::from_type_id(x),
                None => return None,
            };

            let index = self.index;
            self.index += 1;

            // SAFETY: We just read the value and don't replace it.
            if let Some(res) = unsafe { self.world.try_fetch_internal(resource_id) } {
                let vtable_fn = self.vtable_fns[index];
                let trait_object = AtomicRef::map(res.borrow(), |res: &Box<dyn Resource>| {
                    let ptr: *const dyn Resource = Box::as_ref(res);
                    let trait_ptr = (vtable_fn)(ptr.cast::<()>().cast_mut());
                    // SAFETY: For a particular index we store a corresponding
                    // TypeId and vtable_fn in tys and vtable_fns respectively.
                    // We rely on `try_fetch_interal` returning a trait object
                    // with a concrete type that has the provided TypeId. The
                    // signature of the closure parameter of `AtomicRef::map`
                    // should ensure we aren't accidentally extending the
                    // lifetime here. Also see safety note in `MetaTable::get`.
                    unsafe { &*trait_ptr }
                });

                return Some(trait_object);
            }
        }
    }
}

#[cfg(feature = "nightly")]
impl<'a, T> Iterator for MetaIter<'a, T>
where
    T: ?Sized + 'a,
    T: Pointee<Metadata = DynMetadata<T>>,
{
    type Item = AtomicRef<'a, T>;

    #[allow(clippy::borrowed_box)] // variant of https://github.com/rust-lang/rust-clippy/issues/5770
    fn next(&mut self) -> Option<<Self as Iterator>::Item> {
        loop {
            let resource_id = match self.tys.get(self.index) {
                Some(&x) => ResourceId::from_type_id(x),
                None => return None,
            };

            let index = self.index;
            self.index += 1;

            // SAFETY: We just read the value and don't replace it.
            if let Some(res) = unsafe { self.world.try_fetch_internal(resource_id) } {
                let vtable = self.vtables[index];
                let trait_object = AtomicRef::map(res.borrow(), |res: &Box<dyn Resource>| {
                    let ptr: *const dyn Resource = Box::as_ref(res);
                    let trait_ptr = core::ptr::from_raw_parts(ptr.cast::<()>(), vtable);
                    // SAFETY: For a particular index we store a corresponding
                    // TypeId and vtable in tys and vtables respectively.
                    // We rely on `try_fetch_interal` returning a trait object
                    // with a concrete type that has the provided TypeId. The
                    // signature of the closure parameter of `AtomicRef::map`
                    // should ensure we aren't accidentally extending the
                    // lifetime here. Also see safety note in `MetaTable::get`.
                    unsafe { &*trait_ptr }
                });

                return Some(trait_object);
            }
        }
    }
}

/// A mutable iterator for the `MetaTable`.
pub struct MetaIterMut<'a, T: ?Sized + 'a> {
    #[cfg(not(feature = "nightly"))]
    vtable_fns: &'a [fn(*mut ()) -> *mut T],
    #[cfg(feature = "nightly")]
    vtables: &'a [DynMetadata<T>],
    index: usize,
    tys: &'a [TypeKey],
    // `MetaIterMut` is invariant over `T`
    marker: PhantomData<Invariant<T>>,
    world: &'a World,
}

#[cfg(not(feature = "nightly"))]
impl<'a, T> Iterator for MetaIterMut<'a, T>
where
    T: ?Sized + 'a,
{
    type Item = AtomicRefMut<'a, T>;

    fn next(&mut self) -> Option<<Self as Iterator>::Item> {
        loop {
            let resource_id = match self.tys.get(self.index) {
                Some(&x) => ResourceId::from_type_id(x),
                None => return None,
            };

            let index = self.index;
            self.index += 1;

            // Note: this relies on implementation details of
            // try_fetch_internal!
            // SAFETY: We don't swap out the Box or expose a mutable reference to it.
            if let Some(res) = unsafe { self.world.try_fetch_internal(resource_id) } {
                let vtable_fn = self.vtable_fns[index];
                let trait_object =
                    AtomicRefMut::map(res.borrow_mut(), |res: &mut Box<dyn Resource>| {
                        let ptr: *mut dyn Resource = Box::as_mut(res);
                        let trait_ptr = (vtable_fn)(ptr.cast::<()>());
                        // SAFETY: For a particular index we store a corresponding
                        // TypeId and vtable_fn in tys and vtable_fns respectively.
                        // We rely on `try_fetch_interal` returning a trait object
                        // with a concrete type that has the provided TypeId. The
                        // signature of the closure parameter of `AtomicRefMut::map`
                        // should ensure we aren't accidentally extending the
                        // lifetime here. Also see safety note in
                        // `MetaTable::get_mut`.
                        unsafe { &mut *trait_ptr }
                    });

                return Some(trait_object);
            }
        }
    }
}

#[cfg(feature = "nightly")]
impl<'a, T> Iterator for MetaIterMut<'a, T>
where
    T: ?Sized + 'a,
    T: Pointee<Metadata = DynMetadata<T>>,
{
    type Item = AtomicRefMut<'a, T>;

    fn next(&mut self) -> Option<<Self as Iterator>::Item> {
        loop {
            let resource_id = match self.tys.get(self.index) {
                Some(&x) => ResourceId::from_type_id(x),
                None => return None,
            };

            let index = self.index;
            self.index += 1;

            // Note: this relies on implementation details of
            // try_fetch_internal!
            // SAFETY: We don't swap out the Box or expose a mutable reference to it.
            if let Some(res) = unsafe { self.world.try_fetch_internal(resource_id) } {
                let vtable = self.vtables[index];
                let trait_object =
                    AtomicRefMut::map(res.borrow_mut(), |res: &mut Box<dyn Resource>| {
                        let ptr: *mut dyn Resource = Box::as_mut(res);
                        let trait_ptr = core::ptr::from_raw_parts_mut(ptr.cast::<()>(), vtable);
                        // SAFETY: For a particular index we store a corresponding
                        // TypeId and vtable in tys and vtables respectively.
                        // We rely on `try_fetch_interal` returning a trait object
                        // with a concrete type that has the provided TypeId. The
                        // signature of the closure parameter of `AtomicRefMut::map`
                        // should ensure we aren't accidentally extending the
                        // lifetime here. Also see safety note in
                        // `MetaTable::get_mut`.
                        unsafe { &mut *trait_ptr }
                    });

                return Some(trait_object);
            }
        }
    }
}

/// Given an address and provenance, produces a pointer to a trait object for
/// which `CastFrom<T>` is implemented.
///
/// Returned pointer has:
/// * the provenance of the provided pointer
/// * the address of the provided pointer
/// * a vtable that is valid for the concrete type `T`
///
/// We exclusively operate on pointers here so we only need a single function
/// pointer in the meta-table for both `&T` and `&mut T` cases.
#[cfg(not(feature = "nightly"))]
fn attach_vtable<TraitObject, T>(value: *mut ()) -> *mut TraitObject
where
    TraitObject: CastFrom<T> + 'static + ?Sized,
    T: core::any::Any,
{
    // NOTE: This should be equivalent to `Any::downcast_ref_unchecked` except
    // with pointers and we don't require `Any` trait but still require that the
    // types are 'static.
    let trait_ptr = <TraitObject as CastFrom<T>>::cast(value.cast::<T>());
    // TODO: use `.addr()` when stabilized
    // assert that address not changed (to catch some mistakes in CastFrom impl)
    assert!(
        core::ptr::eq(value, trait_ptr.cast::<()>()),
        "Bug: `CastFrom` did not cast `self`"
    );
    trait_ptr
}

/// The `MetaTable` which allows to store object-safe trait implementations for
/// resources.
///
/// For example, you have a trait `Foo` that is implemented by several
/// resources. You can register all the implementors using
/// `MetaTable::register`. Later on, you can iterate over all resources that
/// implement `Foo` without knowing their specific type.
///
/// # Examples
///
/// ```
/// use shred::{CastFrom, MetaTable, World};
///
/// trait Object {
///     fn method1(&self) -> i32;
///
///     fn method2(&mut self, x: i32);
/// }
///
/// unsafe impl<T> CastFrom<T> for dyn Object
/// where
///     T: Object + 'static,
/// {
///     fn cast(t: *mut T) -> *mut Self {
///         t
///     }
/// }
///
/// struct ImplementorA(i32);
///
/// impl Object for ImplementorA {
///     fn method1(&self) -> i32 {
///         self.0
///     }
///
///     fn method2(&mut self, x: i32) {
///         self.0 += x;
///     }
/// }
///
/// struct ImplementorB(i32);
///
/// impl Object for ImplementorB {
///     fn method1(&self) -> i32 {
///         self.0
///     }
///
///     fn method2(&mut self, x: i32) {
///         self.0 *= x;
///     }
/// }
///
/// let mut world = World::empty();
///
/// world.insert(ImplementorA(3));
/// world.insert(ImplementorB(1));
///
/// let mut table = MetaTable::<dyn Object>::new();
/// table.register::<ImplementorA>();
/// table.register::<ImplementorB>();
///
/// {
///     let mut iter = table.iter(&mut world);
///     assert_eq!(iter.next().unwrap().method1(), 3);
///     assert_eq!(iter.next().unwrap().method1(), 1);
/// }
/// ```
pub struct MetaTable<T: ?Sized> {
    #[cfg(not(feature = "nightly"))]
    vtable_fns: Vec<fn(*mut ()) -> *mut T>,
    #[cfg(feature = "nightly")]
    vtables: Vec<DynMetadata<T>>,
    tys: Vec<TypeKey>,
    // `MetaTable` is invariant over `T`
    marker: PhantomData<Invariant<T>>,
}

impl<T: ?Sized> MetaTable<T> {
    /// Creates a new `MetaTable`.
    pub fn new() -> Self {
        // TODO: when ptr_metadata is stablilized this can just be a trait bound: Pointee<Metadata
        // = DynMetadata<T>>
        assert_unsized::<T>();

        Default::default()
    }

    /// Registers a resource `R` that implements the trait `T`.
    #[cfg(not(feature = "nightly"))]
    pub fn register<R>(&mut self)
    where
        R: Resource,
        T: CastFrom<R> + 'static,
    {
        let ty_id = TypeKey::of::<R>();
        let vtable_fn = attach_vtable::<T, R>;

        // Important: ensure no entry exists twice!
        // (index loop, not a slice iterator: CBMC does not fold the pointer comparison that ends
        // a slice iterator over an empty vector's dangling pointer)
        let mut found = None;
        let mut i = 0;
        while i < self.tys.len() {
            if self.tys[i] == ty_id {
                found = Some(i);
            }
            i += 1;
        }
        match found {
            Some(ind) => {
                self.vtable_fns[ind] = vtable_fn;
            }
            None => {
                self.vtable_fns.push(vtable_fn);
                self.tys.push(ty_id);
            }
        }
    }

    #[cfg(feature = "nightly")]
    pub fn register<R>(&mut self)
    where
        R: Resource,
        T: CastFrom<R> + 'static,
        T: Pointee<Metadata = DynMetadata<T>>,
    {
        let ty_id = TypeId::of::<R>();
        // use self.addr() for unpredictable address to use for checking consistency below
        let invalid_ptr = core::ptr::without_provenance_mut::<R>((self as *mut Self).addr());
        let trait_ptr = <T as CastFrom<R>>::cast(invalid_ptr);
        // assert that address not changed (to catch some mistakes in CastFrom impl)
        assert_eq!(
            invalid_ptr.addr(),
            trait_ptr.addr(),
            "Bug: `CastFrom` did not cast `self`"
        );
        let vtable = core::ptr::metadata(trait_ptr);

        // Important: ensure no entry exists twice!
        let len = self.indices.len();
        match self.indices.entry(ty_id) {
            Entry::Occupied(occ) => {
                let ind = *occ.get();

                self.vtables[ind] = vtable;
            }
            Entry::Vacant(vac) => {
                vac.insert(len);

                self.vtables.push(vtable);
                self.tys.push(ty_id);
            }
        }
    }

    /// Tries to convert `world` to a trait object of type `&T`.
    /// If `world` doesn't have an implementation for `T` (or it wasn't
    /// registered), this will return `None`.
    #[cfg(not(feature = "nightly"))]
    pub fn get<'a>(&self, res: &'a dyn Resource) -> Option<&'a T> {
        // VERIF MODEL: lookup by the dynamic `TypeId` of `res` is not modelled (specs does not use it)
        let _ = res;
        unimplemented!("VERIF MODEL: MetaTable::get")
    }

    #[cfg(feature = "nightly")]
    pub fn get<'a>(&self, res: &'a dyn Resource) -> Option<&'a T>
    where
        T: Pointee<Metadata = DynMetadata<T>>,
    {
        self.tys.iter().position(|t| *t == res.verif_type_key()).map(|ind| {
            let vtable = self.vtables[ind];
            let ptr = <*const dyn Resource>::cast::<()>(res);
            let trait_ptr = core::ptr::from_raw_parts(ptr, vtable);
            // SAFETY: We retrieved the `vtable` via TypeId so it will be a
            // vtable that corresponds with the erased type that the TypeId
            // refers to. `from_raw_parts` will also preserve the provenance and
            // address (so we can safely produce a shared reference since we
            // started with one).
            unsafe { &*trait_ptr }
        })
    }

    /// Tries to convert `world` to a trait object of type `&mut T`.
    /// If `world` doesn't have an implementation for `T` (or it wasn't
    /// registered), this will return `None`.
    #[cfg(not(feature = "nightly"))]
    pub fn get_mut<'a>(&self, res: &'a mut dyn Resource) -> Option<&'a mut T> {
        // VERIF MODEL: lookup by the dynamic `TypeId` of `res` is not modelled (specs does not use it)
        let _ = res;
        unimplemented!("VERIF MODEL: MetaTable::get_mut")
    }

    #[cfg(feature = "nightly")]
    pub fn get_mut<'a>(&self, res: &'a mut dyn Resource) -> Option<&'a mut T>
    where
        T: Pointee<Metadata = DynMetadata<T>>,
    {
        self.tys.iter().position(|t| *t == res.verif_type_key()).map(|ind| {
            let vtable = self.vtables[ind];
            let ptr = <*mut dyn Resource>::cast::<()>(res);
            let trait_ptr = core::ptr::from_raw_parts_mut(ptr, vtable);
            // SAFETY: We retrieved the `vtable` via TypeId so it will be a
            // vtable that corresponds with the erased type that the TypeId
            // refers to. `from_raw_parts_mut` will also preserve the provenance
            // and address (so we can safely produce a mutable reference since
            // we started with one).
            unsafe { &mut *trait_ptr }
        })
    }

    /// Iterates all resources that implement `T` and were registered.
    pub fn iter<'a>(&'a self, res: &'a World) -> MetaIter<'a, T> {
        MetaIter {
            #[cfg(not(feature = "nightly"))]
            vtable_fns: &self.vtable_fns,
            #[cfg(feature = "nightly")]
            vtables: &self.vtables,
            index: 0,
            world: res,
            tys: &self.tys,
            marker: PhantomData,
        }
    }

    /// Iterates all resources that implement `T` and were registered mutably.
    pub fn iter_mut<'a>(&'a self, res: &'a World) -> MetaIterMut<'a, T> {
        MetaIterMut {
            #[cfg(not(feature = "nightly"))]
            vtable_fns: &self.vtable_fns,
            #[cfg(feature = "nightly")]
            vtables: &self.vtables,
            index: 0,
            world: res,
            tys: &self.tys,
            marker: PhantomData,
        }
    }
}

impl<T> Default for MetaTable<T>
where
    T: ?Sized,
{
    fn default() -> Self {
        MetaTable {
            #[cfg(not(feature = "nightly"))]
            vtable_fns: Default::default(),
            #[cfg(feature = "nightly")]
            vtables: Default::default(),
            tys: Default::default(),
            marker: Default::default(),
        }
    }
}

fn assert_unsized<T: ?Sized>() {
    use core::mem::size_of;

    assert_eq!(size_of::<&T>(), 2 * size_of::<usize>());
}

#[cfg(test)]
mod tests {
    use super::*;

    trait Object {
        fn method1(&self) -> i32;

        fn method2(&mut self, x: i32);
    }

    unsafe impl<T> CastFrom<T> for dyn Object
    where
        T: Object + 'static,
    {
        fn cast(t: *mut T) -> *mut Self {
            t
        }
    }

    struct ImplementorA(i32);

    impl Object for ImplementorA {
        fn method1(&self) -> i32 {
            self.0
        }

        fn method2(&mut self, x: i32) {
            self.0 += x;
        }
    }

    struct ImplementorB(i32);

    impl Object for ImplementorB {
        fn method1(&self) -> i32 {
            self.0
        }

        fn method2(&mut self, x: i32) {
            self.0 *= x;
        }
    }

    #[test]
    fn test_iter_all() {
        let mut world = World::empty();

        world.insert(ImplementorA(3));
        world.insert(ImplementorB(1));

        let mut table = MetaTable::<dyn Object>::new();
        table.register::<ImplementorA>();
        table.register::<ImplementorB>();

        {
            let mut iter = table.iter(&world);
            assert_eq!(iter.next().unwrap().method1(), 3);
            assert_eq!(iter.next().unwrap().method1(), 1);
        }

        {
            let mut iter_mut = table.iter_mut(&world);
            let mut obj = iter_mut.next().unwrap();
            obj.method2(3);
            assert_eq!(obj.method1(), 6);
            let mut obj = iter_mut.next().unwrap();
            obj.method2(4);
            assert_eq!(obj.method1(), 4);
        }
    }

    #[test]
    fn test_iter_all_after_removal() {
        let mut world = World::empty();

        world.insert(ImplementorA(3));
        world.insert(ImplementorB(1));

        let mut table = MetaTable::<dyn Object>::new();
        table.register::<ImplementorA>();
        table.register::<ImplementorB>();

        {
            let mut iter = table.iter(&world);
            assert_eq!(iter.next().unwrap().method1(), 3);
            assert_eq!(iter.next().unwrap().method1(), 1);
        }

        world.remove::<ImplementorA>().unwrap();

        {
            let mut iter = table.iter(&world);
            assert_eq!(iter.next().unwrap().method1(), 1);
        }

        world.remove::<ImplementorB>().unwrap();
    }

    struct ImplementorC;

    impl Object for ImplementorC {
        fn method1(&self) -> i32 {
            33
        }

        fn method2(&mut self, _x: i32) {
            unimplemented!()
        }
    }

    struct ImplementorD;

    impl Object for ImplementorD {
        fn method1(&self) -> i32 {
            42
        }

        fn method2(&mut self, _x: i32) {
            unimplemented!()
        }
    }

    #[test]
    fn get() {
        let mut world = World::empty();

        world.insert(ImplementorC);
        world.insert(ImplementorD);

        let mut table = MetaTable::<dyn Object>::new();
        table.register::<ImplementorC>();
        table.register::<ImplementorD>();

        assert_eq!(
            table
                .get(&*world.fetch::<ImplementorC>())
                .unwrap()
                .method1(),
            33
        );
        assert_eq!(
            table
                .get(&*world.fetch::<ImplementorD>())
                .unwrap()
                .method1(),
            42
        );

        // Make sure it fulfills `Resource` requirements
        world.insert(table);
    }
}
