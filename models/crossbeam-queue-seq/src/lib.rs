//! VERIF MODEL of `crossbeam_queue::SegQueue`: an unbounded FIFO with `&self` push/pop.
//!
//! Sequential (a `RefCell` around the state): CBMC has no thread model and the harnesses are
//! single-threaded. `Sync` is asserted so that the types holding a queue keep their auto traits.
//!
//! Representation: a singly linked list of individually boxed nodes, so that every object in
//! play is SMALL. Measured: a queue object of 152 bytes (eight inline `Option<Box<dyn ..>>`
//! slots) that is moved into a heap allocation (`Arc<Queue>` in specs' `LazyUpdate`) is copied
//! bytewise, after which CBMC no longer propagates the counters or the fat pointers stored in
//! it: every `pop` was "maybe empty" and every `dyn` call on a popped element an n-way choice.
//! With 24-byte nodes both stay constants.
use std::cell::RefCell;

struct Node<T> {
    val: T,
    next: Option<Box<Node<T>>>,
}

struct List<T> {
    len: usize,
    head: Option<Box<Node<T>>>,
}

pub struct SegQueue<T> {
    inner: RefCell<List<T>>,
}

unsafe impl<T: Send> Send for SegQueue<T> {}
unsafe impl<T: Send> Sync for SegQueue<T> {}

impl<T> SegQueue<T> {
    pub const fn new() -> SegQueue<T> {
        SegQueue { inner: RefCell::new(List { len: 0, head: None }) }
    }
    pub fn push(&self, value: T) {
        let mut q = self.inner.borrow_mut();
        q.len += 1;
        let mut cur = &mut q.head;
        while let Some(n) = cur {
            cur = &mut n.next;
        }
        *cur = Some(Box::new(Node { val: value, next: None }));
    }
    pub fn pop(&self) -> Option<T> {
        let mut q = self.inner.borrow_mut();
        match q.head.take() {
            None => None,
            Some(n) => {
                let n = *n;
                q.head = n.next;
                q.len -= 1;
                Some(n.val)
            }
        }
    }
    pub fn is_empty(&self) -> bool {
        self.inner.borrow().len == 0
    }
    pub fn len(&self) -> usize {
        self.inner.borrow().len
    }
}

impl<T> Default for SegQueue<T> {
    fn default() -> SegQueue<T> {
        SegQueue::new()
    }
}

impl<T> Drop for SegQueue<T> {
    fn drop(&mut self) {
        // iterative, like the real queue (no recursion over the list)
        while self.pop().is_some() {}
    }
}

impl<T> std::fmt::Debug for SegQueue<T> {
    fn fmt(&self, f: &mut std::fmt::Formatter<'_>) -> std::fmt::Result {
        f.pad("SegQueue { .. }")
    }
}
