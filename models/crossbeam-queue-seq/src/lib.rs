//! VERIF MODEL of `crossbeam_queue::SegQueue`: an unbounded FIFO with `&self` push/pop.
//! Sequential (a `RefCell<VecDeque>`): CBMC has no thread model, and the harnesses are
//! single-threaded. `Sync` is asserted so that the types holding a queue keep their auto traits.
use std::cell::RefCell;
use std::collections::VecDeque;

pub struct SegQueue<T> {
    inner: RefCell<VecDeque<T>>,
}

unsafe impl<T: Send> Send for SegQueue<T> {}
unsafe impl<T: Send> Sync for SegQueue<T> {}

impl<T> SegQueue<T> {
    pub const fn new() -> SegQueue<T> {
        SegQueue { inner: RefCell::new(VecDeque::new()) }
    }
    pub fn push(&self, value: T) {
        self.inner.borrow_mut().push_back(value)
    }
    pub fn pop(&self) -> Option<T> {
        self.inner.borrow_mut().pop_front()
    }
    pub fn is_empty(&self) -> bool {
        self.inner.borrow().is_empty()
    }
    pub fn len(&self) -> usize {
        self.inner.borrow().len()
    }
}

impl<T> Default for SegQueue<T> {
    fn default() -> SegQueue<T> {
        SegQueue::new()
    }
}

impl<T> std::fmt::Debug for SegQueue<T> {
    fn fmt(&self, f: &mut std::fmt::Formatter<'_>) -> std::fmt::Result {
        f.pad("SegQueue { .. }")
    }
}
