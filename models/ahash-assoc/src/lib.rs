//! VERIF MODEL of `ahash`: `AHashMap<K, V>` as an association list.
//!
//! The real `AHashMap` is hashbrown behind a randomly seeded hasher: the seed
//! comes from `getrandom` (FFI, unsupported by Kani) and hashbrown's probe loop
//! does not terminate under symbolic execution. This model keeps the map
//! contract (at most one value per key; get / insert / remove by key) with a
//! linear scan over a vector of pairs, so that the specs code *around* the map
//! (`HashMapStorage`) can be executed. Hash-order effects are out of the claim:
//! the model has no hash.

use std::borrow::Borrow;
use std::ops::Index;

/// Association-list stand-in for `ahash::AHashMap`.
#[derive(Debug, Clone)]
pub struct AHashMap<K, V> {
    items: Vec<(K, V)>,
}

impl<K, V> Default for AHashMap<K, V> {
    fn default() -> Self {
        AHashMap { items: Vec::new() }
    }
}

impl<K: Eq, V> AHashMap<K, V> {
    pub fn new() -> Self {
        Default::default()
    }

    fn pos<Q: ?Sized + Eq>(&self, k: &Q) -> Option<usize>
    where
        K: Borrow<Q>,
    {
        let mut i = 0;
        while i < self.items.len() {
            if self.items[i].0.borrow() == k {
                return Some(i);
            }
            i += 1;
        }
        None
    }

    pub fn get<Q: ?Sized + Eq>(&self, k: &Q) -> Option<&V>
    where
        K: Borrow<Q>,
    {
        match self.pos(k) {
            Some(i) => Some(&self.items[i].1),
            None => None,
        }
    }

    pub fn get_mut<Q: ?Sized + Eq>(&mut self, k: &Q) -> Option<&mut V>
    where
        K: Borrow<Q>,
    {
        match self.pos(k) {
            Some(i) => Some(&mut self.items[i].1),
            None => None,
        }
    }

    pub fn contains_key<Q: ?Sized + Eq>(&self, k: &Q) -> bool
    where
        K: Borrow<Q>,
    {
        self.pos(k).is_some()
    }

    pub fn insert(&mut self, k: K, v: V) -> Option<V> {
        match self.pos(&k) {
            Some(i) => Some(std::mem::replace(&mut self.items[i].1, v)),
            None => {
                self.items.push((k, v));
                None
            }
        }
    }

    pub fn remove<Q: ?Sized + Eq>(&mut self, k: &Q) -> Option<V>
    where
        K: Borrow<Q>,
    {
        match self.pos(k) {
            Some(i) => Some(self.items.swap_remove(i).1),
            None => None,
        }
    }

    pub fn clear(&mut self) {
        self.items.clear();
    }

    pub fn len(&self) -> usize {
        self.items.len()
    }

    pub fn is_empty(&self) -> bool {
        self.items.is_empty()
    }
}

impl<K: Eq + Borrow<Q>, Q: ?Sized + Eq, V> Index<&Q> for AHashMap<K, V> {
    type Output = V;

    fn index(&self, k: &Q) -> &V {
        self.get(k).expect("no entry found for key")
    }
}

// ---------------------------------------------------------------------------------------------
/// Association-list stand-in for `ahash::AHashSet`.
///
/// ITERATION ORDER IS NONDETERMINISTIC under Kani: a hash set iterates in an order that depends on
/// the hasher's random seed, so `iter()` / `into_iter()` start at an arbitrary element (a
/// `kani::any()` rotation, chosen independently on every call). Code whose observable result
/// depends on the iteration order of a hash set therefore shows up as a difference between two
/// otherwise identical runs (the C20 twin harnesses). Natively the rotation is 0.
#[derive(Debug, Clone)]
pub struct AHashSet<T> {
    items: Vec<T>,
}

impl<T> Default for AHashSet<T> {
    fn default() -> Self {
        AHashSet { items: Vec::new() }
    }
}

#[cfg(kani)]
fn any_rotation(len: usize) -> usize {
    if len == 0 {
        return 0;
    }
    let k: usize = kani::any();
    kani::assume(k < len);
    k
}
#[cfg(not(kani))]
fn any_rotation(_len: usize) -> usize {
    0
}

impl<T: Eq> AHashSet<T> {
    pub fn new() -> Self {
        Default::default()
    }
    fn pos<Q: ?Sized + Eq>(&self, k: &Q) -> Option<usize>
    where
        T: Borrow<Q>,
    {
        let mut i = 0;
        while i < self.items.len() {
            if self.items[i].borrow() == k {
                return Some(i);
            }
            i += 1;
        }
        None
    }
    pub fn insert(&mut self, v: T) -> bool {
        if self.pos(&v).is_some() {
            false
        } else {
            self.items.push(v);
            true
        }
    }
    pub fn remove<Q: ?Sized + Eq>(&mut self, k: &Q) -> bool
    where
        T: Borrow<Q>,
    {
        match self.pos(k) {
            Some(i) => {
                self.items.swap_remove(i);
                true
            }
            None => false,
        }
    }
    pub fn contains<Q: ?Sized + Eq>(&self, k: &Q) -> bool
    where
        T: Borrow<Q>,
    {
        self.pos(k).is_some()
    }
    pub fn len(&self) -> usize {
        self.items.len()
    }
    pub fn is_empty(&self) -> bool {
        self.items.is_empty()
    }
    pub fn clear(&mut self) {
        self.items.clear();
    }
    pub fn iter(&self) -> SetIter<'_, T> {
        SetIter { items: &self.items, start: any_rotation(self.items.len()), done: 0 }
    }
}

pub struct SetIter<'a, T> {
    items: &'a [T],
    start: usize,
    done: usize,
}
impl<'a, T> Iterator for SetIter<'a, T> {
    type Item = &'a T;
    fn next(&mut self) -> Option<&'a T> {
        if self.done >= self.items.len() {
            return None;
        }
        let i = (self.start + self.done) % self.items.len();
        self.done += 1;
        Some(&self.items[i])
    }
}
pub struct SetIntoIter<T> {
    items: Vec<Option<T>>,
    start: usize,
    done: usize,
}
impl<T> Iterator for SetIntoIter<T> {
    type Item = T;
    fn next(&mut self) -> Option<T> {
        if self.done >= self.items.len() {
            return None;
        }
        let i = (self.start + self.done) % self.items.len();
        self.done += 1;
        self.items[i].take()
    }
    fn size_hint(&self) -> (usize, Option<usize>) {
        let n = self.items.len() - self.done;
        (n, Some(n))
    }
}
impl<T: Eq> IntoIterator for AHashSet<T> {
    type Item = T;
    type IntoIter = SetIntoIter<T>;
    fn into_iter(self) -> SetIntoIter<T> {
        let start = any_rotation(self.items.len());
        let mut items = Vec::with_capacity(self.items.len());
        for v in self.items {
            items.push(Some(v));
        }
        SetIntoIter { items, start, done: 0 }
    }
}
impl<'a, T: Eq> IntoIterator for &'a AHashSet<T> {
    type Item = &'a T;
    type IntoIter = SetIter<'a, T>;
    fn into_iter(self) -> SetIter<'a, T> {
        self.iter()
    }
}
impl<T: Eq> std::iter::FromIterator<T> for AHashSet<T> {
    fn from_iter<I: IntoIterator<Item = T>>(iter: I) -> Self {
        let mut s = AHashSet::new();
        for v in iter {
            s.insert(v);
        }
        s
    }
}
impl<T: Eq> Extend<T> for AHashSet<T> {
    fn extend<I: IntoIterator<Item = T>>(&mut self, iter: I) {
        for v in iter {
            self.insert(v);
        }
    }
}
