//! VERIF MODEL of `ahash`: `AHashMap<K, V>` as an association list.
//!
//! The real `AHashMap` is hashbrown behind a randomly seeded hasher: the seed
//! comes from `getrandom` (FFI, unsupported by Kani) and hashbrown's probe loop
//! does not terminate under symbolic execution. This model keeps the map
//! contract (at most one value per key; get / insert / remove by key) with a
//! linear scan over a vector of pairs, so that the specs code *around* the map
//! (`HashMapStorage`) can be executed. Hash-order effects are out of the claim:
//! the model has no hash.

use std::borrow::Borrow;
use std::ops::Index;

/// Association-list stand-in for `ahash::AHashMap`.
#[derive(Debug, Clone)]
pub struct AHashMap<K, V> {
    items: Vec<(K, V)>,
}

impl<K, V> Default for AHashMap<K, V> {
    fn default() -> Self {
        AHashMap { items: Vec::new() }
    }
}

impl<K: Eq, V> AHashMap<K, V> {
    pub fn new() -> Self {
        Default::default()
    }

    fn pos<Q: ?Sized + Eq>(&self, k: &Q) -> Option<usize>
    where
        K: Borrow<Q>,
    {
        let mut i = 0;
        while i < self.items.len() {
            if self.items[i].0.borrow() == k {
                return Some(i);
            }
            i += 1;
        }
        None
    }

    pub fn get<Q: ?Sized + Eq>(&self, k: &Q) -> Option<&V>
    where
        K: Borrow<Q>,
    {
        match self.pos(k) {
            Some(i) => Some(&self.items[i].1),
            None => None,
        }
    }

    pub fn get_mut<Q: ?Sized + Eq>(&mut self, k: &Q) -> Option<&mut V>
    where
        K: Borrow<Q>,
    {
        match self.pos(k) {
            Some(i) => Some(&mut self.items[i].1),
            None => None,
        }
    }

    pub fn contains_key<Q: ?Sized + Eq>(&self, k: &Q) -> bool
    where
        K: Borrow<Q>,
    {
        self.pos(k).is_some()
    }

    pub fn insert(&mut self, k: K, v: V) -> Option<V> {
        match self.pos(&k) {
            Some(i) => Some(std::mem::replace(&mut self.items[i].1, v)),
            None => {
                self.items.push((k, v));
                None
            }
        }
    }

    pub fn remove<Q: ?Sized + Eq>(&mut self, k: &Q) -> Option<V>
    where
        K: Borrow<Q>,
    {
        match self.pos(k) {
            Some(i) => Some(self.items.swap_remove(i).1),
            None => None,
        }
    }

    pub fn clear(&mut self) {
        self.items.clear();
    }

    pub fn len(&self) -> usize {
        self.items.len()
    }

    pub fn is_empty(&self) -> bool {
        self.items.is_empty()
    }
}

impl<K: Eq + Borrow<Q>, Q: ?Sized + Eq, V> Index<&Q> for AHashMap<K, V> {
    type Output = V;

    fn index(&self, k: &Q) -> &V {
        self.get(k).expect("no entry found for key")
    }
}
